"""C02 - word wrapping keeps every character, in order, with its own style (DESIGN.md 5, C02)."""
from rich.text import Span, Text

from vf.obl import symx
from vf import catalogue as cat
from vf.common import ref_width_concrete as rw

F_W = ["rich/text.py:Text.wrap", "rich/_wrap.py:divide_line", "rich/_wrap.py:words", "rich/cells.py:chop_cells", "rich/text.py:Text.divide",
       "rich/containers.py:Lines.justify", "rich/text.py:Text.truncate", "rich/text.py:Text.rstrip_end", "rich/text.py:Text.expand_tabs",
       "rich/text.py:Text.split"]
# all non-whitespace characters are distinct, so positions in the output can be matched back unambiguously
WORDS = ["a", "bc", "defghij", "中文", "k\u0301", "l中", "mnopqrstuvwx", "字"]
SEPS = [" ", "  ", "\n", "\t", " \n"]
LEAD = ["", " ", "  "]
JUSTIFY = [None, "left", "center", "right", "full"]
OVERFLOW = ["fold", "crop", "ellipsis", "ignore"]
STYLES = ["bold", "italic", "underline"]


def _tags(text: Text):
    return [[sp.style for sp in text._spans if sp.start <= i < sp.end and sp.style] for i in range(len(text.plain))]


TRIPLES = [("a", "defghij", "中文"), ("中文", "bc", "mnopqrstuvwx"), ("k\u0301", "l中", "defghij"), ("mnopqrstuvwx", "a", "字"),
           ("l中", "中文", "bc"), ("bc", "k\u0301", "a")]
SEP_PAIRS = [(" ", " "), ("  ", "\n"), ("\n", " "), ("\t", " "), (" \n", "  "), (" ", "\t"), ("\n", "\n"), ("  ", "  ")]
SHAPES = [(0, 0), (0, 4), (1, 2), (2, 2)]      # (start, length) on a 4-step grid; (0,0) = no span


def _build(e, rich_bounds):
    ws = TRIPLES[int(e.mk("words", 0, (len(TRIPLES) if rich_bounds else 3) - 1))]
    seps = SEP_PAIRS[int(e.mk("seps", 0, (6 if rich_bounds else 4) - 1))]
    lead = LEAD[int(e.mk("lead", 0, (3 if rich_bounds else 2) - 1))]
    s = lead + ws[0] + seps[0] + ws[1] + seps[1] + ws[2]
    n = len(s)
    spans = []
    a = int(e.mk("span0_start", 0, 3))
    b = int(e.mk("span0_len", 0, 3))
    a = a * n // 4
    b = min(n, a + (b * n + 3) // 4)
    if b > a:
        spans.append(Span(a, b, STYLES[0]))
    c, d = SHAPES[int(e.mk("span1_shape", 0, len(SHAPES) - 1))]
    c = c * n // 4
    d = min(n, c + (d * n + 3) // 4)
    if d > c:
        spans.append(Span(c, d, STYLES[1]))
    dup = int(e.mk("duplicate_mode", 0, 2))
    if dup == 1 and spans:
        spans.append(Span(spans[0].start, spans[0].end, STYLES[2]))
    elif dup == 2 and len(spans) == 2 and spans[0].start < spans[1].start < spans[0].end:
        # a later span equal in value to what remains of the first span after a split at spans[1].start
        spans.append(Span(spans[1].start, spans[0].end, STYLES[0]))
    return s, spans, ws


def _names(tags):
    """attribute names switched on by a list of span styles (names, or Style objects on the spaces that 'full' inserts)"""
    on = set()
    for t in tags:
        if isinstance(t, str):
            on.add(t)
        else:
            on |= {a for a in STYLES if getattr(t, a)}
    return [a for a in STYLES if a in on]


def _mk(ji, oi, tiers, timeout, wmax):
    justify, overflow = JUSTIFY[ji], OVERFLOW[oi]

    @symx("C02-wrap-%s-%s-w%d" % (justify or "default", overflow, wmax), tiers=tiers, timeout=timeout, kind="P", functions=F_W,
          bounds="texts lead+word+sep+word+sep+word with word triples from %r, separator pairs from %r, leading spaces from %r; one "
                 "span with start and length on a 4-step grid over the text, a second from 4 shapes (none, whole, inner, tail: "
                 "overlapping / nested / empty) plus an optional duplicate (same range, or equal to the tail of the first span with the same style); "
                 "width 2..%d; no_wrap on/off; justify=%s overflow=%s (solver-enumerated, native): fold never drops, duplicates or "
                 "reorders a non-whitespace character; every produced line fits; every output character keeps its ordered span "
                 "styles, in the lines returned by wrap() and in the segments the console renders for the same Text; a word is split only when it (with the indentation before it) is wider than the width"
                 % (TRIPLES, SEP_PAIRS, LEAD, wmax, justify, overflow),
          outside="more than three words; widths above %d; spans off the grid" % wmax,
          stubs=["span styles compared as ordered lists per character (A2)"])
    def h(e):
        s, spans, ws = _build(e, wmax > 5)
        width = int(e.mk("width", 2, wmax))
        no_wrap = bool(e.mkbool("no_wrap"))
        text = Text(s, spans=list(spans))
        in_tags = _tags(text)
        c = cat.console(tab_size=4)
        lines = text.wrap(c, width, justify=justify, overflow=overflow, tab_size=4, no_wrap=no_wrap)
        src = [(ch, in_tags[i]) for i, ch in enumerate(s) if not ch.isspace()]
        out = []
        for line in lines:
            lt = _tags(line)
            for i, ch in enumerate(line.plain):
                if not ch.isspace() and ch != "…":
                    out.append((ch, lt[i]))
            if len(line) != len(line.plain):
                return False
        fits = overflow != "ignore" and not (no_wrap and overflow == "fold" and False)
        if overflow in ("fold", "crop", "ellipsis"):
            for line in lines:
                if rw(line.plain) > width:
                    return False
        if overflow == "fold" and not no_wrap:
            if out != src:
                return False
        else:
            # cropped / truncated modes: what is output is a subsequence of the input, each character with its own styles
            it = iter(src)
            for item in out:
                for cand in it:
                    if cand == item:
                        break
                else:
                    return False
        # what is finally written: the wrapped lines joined and rendered by the console carry the same per-character styles
        text2 = Text(s, spans=list(spans), justify=justify, overflow=overflow, no_wrap=no_wrap, tab_size=4)
        rendered = []
        for seg in c.render(text2, c.options.update(width=width)):
            st = seg.style
            tags = [t for t in STYLES if st is not None and getattr(st, t)]
            rendered += [(ch, tags) for ch in seg.text]
        want_r = []
        for line in lines:
            lt = _tags(line)
            want_r += [(ch, _names(lt[i])) for i, ch in enumerate(line.plain)]
            want_r.append(("\n", []))
        if rendered != want_r:
            return False
        if overflow == "fold" and not no_wrap:
            # a word is broken across lines only when it does not fit on a line of its own (with its indentation)
            for wi, word in enumerate(ws):
                hits = [li for li, line in enumerate(lines) if any(ch in line.plain for ch in word if not ch.isspace())]
                if len(hits) > 1:
                    indent = 0
                    idx = s.index(word)
                    before = s[:idx]
                    line_start = before.rfind("\n") + 1
                    if before[line_start:].strip() == "":
                        indent = rw(before[line_start:].replace("\t", "    "))
                    if indent + rw(word) <= width:
                        return False
        return True
    return h


for _ji in range(len(JUSTIFY)):
    for _oi in range(len(OVERFLOW)):
        _mk(_ji, _oi, ("quick",), 900, 4)
        _mk(_ji, _oi, ("thorough",), 3400, 8)


# --- the break-offset kernel on symbolic strings (S, CrossHair) ------------------------------------------------------------
from rich._wrap import divide_line  # noqa: E402
from vf.obl import xh  # noqa: E402
from vf.common import over, ref_width  # noqa: E402

_WSIG = "ab 中"


def _mk_divide_line(n, tiers, timeout):
    def pre(s: str, width: int, fold: bool) -> bool:
        return len(s) == n and over(s, _WSIG) and 2 <= width <= 6

    @xh("C02-divide_line-len%d" % n, pre=pre, tiers=tiers, timeout=timeout, kind="S", stubs=["S1", "S2"],
        functions=["rich/_wrap.py:divide_line", "rich/_wrap.py:words", "rich/cells.py:chop_cells", "rich/cells.py:cell_len"],
        bounds="all strings of length %d over {a, b, space, U+4E2D}, width 2..6, fold on/off: break offsets are strictly increasing "
               "inside the string; the pieces concatenate to the string; with fold every piece, ignoring its trailing blanks, fits "
               "the width; a word (maximal run of non-blanks) is cut only if it alone is wider than the width" % n,
        outside="longer strings; tabs/newlines (handled before divide_line is called)")
    def h(s: str, width: int, fold: bool) -> bool:
        offsets = divide_line(s, width, fold=fold)
        prev = 0
        for o in offsets:
            if not (prev < o < len(s)) and not (prev == 0 and 0 < o < len(s)):
                return False
            prev = o
        pieces = []
        prev = 0
        for o in offsets + [len(s)]:
            pieces.append(s[prev:o])
            prev = o
        if "".join(pieces) != s:
            return False
        if fold:
            for p in pieces:
                if ref_width(p.rstrip(" ")) > width:
                    return False
        # a cut inside a word only when that word is wider than the width
        for o in offsets:
            if s[o - 1] != " " and s[o] != " ":
                a = o
                while a > 0 and s[a - 1] != " ":
                    a -= 1
                b = o
                while b < len(s) and s[b] != " ":
                    b += 1
                if ref_width(s[a:b]) <= width and fold:
                    # the word would have fitted on a line of its own, unless leading blanks on its line push it out
                    lead = a
                    while lead > 0 and s[lead - 1] == " ":
                        lead -= 1
                    if lead != 0 or ref_width(s[0:b]) <= width:
                        return False
        return True
    return h


for _n, _t, _to in [(2, ("quick", "thorough"), 120), (3, ("quick", "thorough"), 300), (4, ("quick", "thorough"), 900),
                    (5, ("thorough",), 2400), (6, ("thorough",), 3400)]:
    _mk_divide_line(_n, _t, _to)


# --- wrapping does not depend on what was wrapped before (P) -----------------------------------------------------------------
_HIST_TEXTS = ["supercalifragilistic word", "ab 中文中文中文 cd", "a bc def"]


@symx("C02-wrap-history-independence", timeout=600, kind="P", functions=F_W,
      bounds="%d texts x width 2..8: wrapping the text with overflow in {crop, ellipsis, ignore} or with another width FIRST, then "
             "with fold (same process, real caches): the fold result equals the result of a fresh fold wrap and keeps every "
             "non-whitespace character" % len(_HIST_TEXTS))
def c02_history(e):
    s = _HIST_TEXTS[int(e.mk("text", 0, len(_HIST_TEXTS) - 1))]
    w = int(e.mk("width", 2, 8))
    first = ["crop", "ellipsis", "ignore", "fold"][int(e.mk("first_overflow", 0, 3))]
    w0 = w if e.mkbool("same_width") else w + 1
    c = cat.console()
    Text(s).wrap(c, w0, overflow=first)
    got = [l.plain for l in Text(s).wrap(c, w, overflow="fold")]
    chars = "".join("".join(ch for ch in l if not ch.isspace()) for l in got)
    if chars != "".join(ch for ch in s if not ch.isspace()):
        return False
    return all(rw(l) <= w for l in got)
