"""Obligation registry (DESIGN.md 3)."""
from dataclasses import dataclass, field
from typing import Callable, Dict, Optional, Sequence, Tuple

REGISTRY: Dict[str, "Obl"] = {}


@dataclass
class Obl:
    id: str
    prop: str
    engine: str                       # "xh" | "symx" | "smt"
    fn: Callable
    pre: Optional[Callable] = None    # xh only: precondition over the same arguments
    tiers: Tuple[str, ...] = ("quick", "thorough")
    timeout: int = 60                 # CPU seconds handed to the engine
    raises: Tuple[type, ...] = ()     # documented exceptions (xh) / expected (symx)
    functions: Sequence[str] = ()     # real functions executed
    bounds: str = ""
    outside: str = ""
    kind: str = "S"                   # S | P | C+S
    stubs: Sequence[str] = ()
    opts: dict = field(default_factory=dict)   # engine options (bv=, fp=, real_floats=...)
    signature: Optional[Callable] = None       # model -> short string naming the failing call
    twin: bool = True                 # run a vacuity twin


def _reg(o: Obl):
    assert o.id not in REGISTRY, "duplicate obligation id " + o.id
    REGISTRY[o.id] = o
    return o


def xh(id, **kw):
    """Register a CrossHair obligation.  fn(args...)->bool must return True."""
    def deco(fn):
        _reg(Obl(id=id, prop=id.split("-")[0], engine="xh", fn=fn, **kw))
        return fn
    return deco


def symx(id, **kw):
    """Register a symx obligation.  fn(engine)->SymBool/bool."""
    def deco(fn):
        _reg(Obl(id=id, prop=id.split("-")[0], engine="symx", fn=fn, **kw))
        return fn
    return deco


def smt(id, **kw):
    """Register a direct SMT lemma.  fn()->(status, info) with status 'unsat' meaning discharged."""
    def deco(fn):
        kw.setdefault("twin", False)
        _reg(Obl(id=id, prop=id.split("-")[0], engine="smt", fn=fn, **kw))
        return fn
    return deco
