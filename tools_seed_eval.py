#!/usr/bin/env python3
"""Confirm a seeded change and run the property's check against it.

usage: tools_seed_eval.py <Cxx> <n> [--tier quick] [--props C01,C07]   (inputs in /tmp/seed_<Cxx>/patch<n>.diff, demo<n>.py, notes<n>.md)
Copies the confirmed change to /verif/seeded/<Cxx>-<n>/ with meta.json.
"""
import json, os, shutil, subprocess, sys, time
pid, n = sys.argv[1], sys.argv[2]
tier = sys.argv[sys.argv.index("--tier") + 1] if "--tier" in sys.argv else "quick"
props = sys.argv[sys.argv.index("--props") + 1].split(",") if "--props" in sys.argv else [pid]
# seeds 1,2 come from the first round (/tmp/seed_<id>), 3,4 from the second (/tmp/seedB_<id>/{patch1,patch2})
src = {0: "/tmp/seed_%s", 1: "/tmp/seedB_%s", 2: "/tmp/seedC_%s", 3: "/tmp/seedD_%s", 4: "/tmp/seedE_%s", 5: "/tmp/seedF_%s"}[(int(n) - 1) // 2] % pid
fn = str((int(n) - 1) % 2 + 1)
patch, demo, notes = ["%s/%s%s%s" % (src, a, fn, b) for a, b in (("patch", ".diff"), ("demo", ".py"), ("notes", ".md"))]
saved = "/verif/seeded/%s-%s" % (pid, n)
if "--from-saved" in sys.argv or not os.path.exists(patch):
    patch, demo, notes = saved + "/patch.diff", saved + "/demo.py", saved + "/notes.md"
    if not os.path.exists(notes) and os.path.exists(saved + "/meta.json"):
        open("/tmp/_notes_%s_%s.md" % (pid, n), "w").write(json.load(open(saved + "/meta.json")).get("needs", ""))
        notes = "/tmp/_notes_%s_%s.md" % (pid, n)
wt = "/tmp/evalwt_%s_%s" % (pid, n)
def sh(cmd, **kw):
    return subprocess.run(cmd, shell=True, capture_output=True, text=True, **kw)
meta = {"property": pid, "source": "sub-agent given only the property text and a scratch worktree", "ran": []}
sh("git -C /repo worktree remove --force %s" % wt)
r = sh("git -C /repo worktree add %s HEAD" % wt); assert r.returncode == 0, r.stderr
try:
    r = sh("git -C %s apply %s" % (wt, patch)); assert r.returncode == 0, "patch does not apply: " + r.stderr
    t = sh("cd %s && PYTHONPATH=%s /venv/bin/python -m pytest -q -p no:cacheprovider tests 2>&1 | tail -1" % (wt, wt))
    meta["tests_with_change"] = t.stdout.strip()
    d1 = sh("PYTHONPATH=%s /venv/bin/python %s" % (wt, demo), timeout=600)
    d0 = sh("PYTHONPATH=/repo /venv/bin/python %s" % demo, timeout=600)
    meta["demo_exit_with_change"], meta["demo_exit_clean"] = d1.returncode, d0.returncode
    meta["demo_output_with_change"] = (d1.stdout + d1.stderr)[-600:]
finally:
    sh("git -C /repo worktree remove --force %s" % wt)
ok = "430 passed" in meta["tests_with_change"] and meta["demo_exit_with_change"] == 1 and meta["demo_exit_clean"] == 0
meta["confirmed"] = ok
print("confirmed:", ok, meta["tests_with_change"], meta["demo_exit_with_change"], meta["demo_exit_clean"])
official = "--official" in sys.argv
if ok and official:
    # the brief's procedure: apply to /repo itself, run the checks, undo straight afterwards
    assert sh("git -C /repo status --porcelain -- rich").stdout.strip() == "", "/repo dirty"
    r = sh("git -C /repo apply %s" % patch); assert r.returncode == 0, r.stderr
    try:
        meta["checks"] = {}
        for p in props:
            t0 = time.time()
            c = sh("cd /verif && ./check %s --tier %s --no-evidence" % (p, tier), timeout=7200)
            lines = [l for l in c.stdout.splitlines() if l.startswith(("VIOLATION", "SUMMARY", "REFUTED"))]
            meta["checks"][p] = {"exit": c.returncode, "wall_s": round(time.time() - t0), "lines": [l[:300] for l in lines][:12]}
            meta["ran"].append("git -C /repo apply patch.diff; ./check %s --tier %s; git -C /repo checkout -- ." % (p, tier))
            print(p, "exit", c.returncode, [l[:160] for l in lines][:6])
    finally:
        sh("git -C /repo checkout -- .")
    meta["detected_by"] = [p for p, v in meta["checks"].items() if v["exit"] == 1]
    meta["official_run"] = {"procedure": "git -C /repo apply patch.diff; ./check <P> --tier %s; git -C /repo checkout -- ." % tier,
                            "repo_head": sh("git -C /repo rev-parse --short HEAD").stdout.strip(),
                            "verif_head": sh("git -C /verif rev-parse --short HEAD").stdout.strip(),
                            "detected_by": list(meta["detected_by"])}
elif ok:
    # development mode: the same check, pointed at a scratch worktree that carries the change (VF_REPO)
    wt2 = wt + "_chk"
    sh("git -C /repo worktree remove --force %s" % wt2)
    r = sh("git -C /repo worktree add %s HEAD" % wt2); assert r.returncode == 0, r.stderr
    try:
        r = sh("git -C %s apply %s" % (wt2, patch)); assert r.returncode == 0, r.stderr
        meta["checks"] = {}
        for p in props:
            t0 = time.time()
            c = sh("cd /verif && VF_REPO=%s VF_JOBS=6 ./check %s --tier %s --no-evidence" % (wt2, p, tier), timeout=7200)
            lines = [l for l in c.stdout.splitlines() if l.startswith(("VIOLATION", "SUMMARY", "REFUTED"))]
            meta["checks"][p] = {"exit": c.returncode, "wall_s": round(time.time() - t0), "lines": [l[:300] for l in lines][:12]}
            meta["ran"].append("worktree with patch.diff applied; VF_REPO=<worktree> ./check %s --tier %s" % (p, tier))
            print(p, "exit", c.returncode, [l[:160] for l in lines][:6])
    finally:
        sh("git -C /repo worktree remove --force %s" % wt2)
    meta["detected_by"] = [p for p, v in meta["checks"].items() if v["exit"] == 1]
dst = "/verif/seeded/%s-%s" % (pid, n)
if ok:
    os.makedirs(dst, exist_ok=True)
    if os.path.abspath(patch) != dst + "/patch.diff":
        shutil.copy(patch, dst + "/patch.diff"); shutil.copy(demo, dst + "/demo.py")
    meta["needs"] = open(notes).read() if os.path.exists(notes) else ""
    old = {}
    if os.path.exists(dst + "/meta.json"):
        old = json.load(open(dst + "/meta.json"))
        for k, v in old.get("checks", {}).items():
            meta["checks"].setdefault(k, v)
        meta["detected_by"] = [p for p, v in meta["checks"].items() if v["exit"] == 1]
    json.dump(meta, open(dst + "/meta.json", "w"), indent=1)
    print("saved", dst, "detected_by", meta["detected_by"])
