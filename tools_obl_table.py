#!/usr/bin/env python3
"""Regenerate the 'obligations as built' table in DESIGN.md from `./check --list`."""
import collections, re, subprocess
txt = subprocess.run(["./check", "--list"], cwd="/verif", capture_output=True, text=True).stdout
rows = collections.OrderedDict()
for l in txt.splitlines():
    head = l.split(" | ", 1)[0].split()
    if len(head) < 6 or not head[0].startswith("C"):
        continue
    prop, oid, eng, tiers, timeout, kind = head[:6]
    g = re.sub(r"^(C02-wrap)-.*$", r"\1-<justify>-<overflow>", oid)
    g = re.sub(r"^(C07-box-rows)-.*$", r"\1-<box>", g)
    g = re.sub(r"(-len\d+|-s\d+|-first\d+|-shard\d+|-w\d+|-trees\d+-\d+|-values\d+-\d+|-child\d+|-\d{2,3}(-ctl)?$|-ratios\d+|-\d+tokens|-\d+ops|-\d+seg|-\dcol.*$|-(standard|windows|truecolor|256|none)(-2attrs)?$|-[rgb]$)", "", g)
    r = rows.setdefault((prop, g, eng, kind), {"quick": 0, "thorough": 0})
    r["quick"] += "quick" in tiers
    r["thorough"] += "thorough" in tiers
out = ["| property | obligation group | engine | kind | obligations (quick / thorough) |", "|---|---|---|---|---|"]
for (prop, g, eng, kind), r in rows.items():
    out.append("| %s | %s | %s | %s | %d / %d |" % (prop, g, eng, kind, r["quick"], r["thorough"]))
block = "<!-- OBL-BEGIN -->\n" + "\n".join(out) + "\n<!-- OBL-END -->"
d = open("/verif/DESIGN.md").read()
d = re.sub(r"<!-- OBL-BEGIN -->.*?<!-- OBL-END -->", lambda m: block, d, flags=re.S)
open("/verif/DESIGN.md", "w").write(d)
print(len(out) - 2, "groups;", sum(r["quick"] for r in rows.values()), "quick /", sum(r["thorough"] for r in rows.values()), "thorough obligations")
