"""C20 - theme stack (DESIGN.md 5, C20)."""
import io

from rich.console import Console
from rich.errors import MissingStyle
from rich.style import Style
from rich.theme import Theme, ThemeStack, ThemeStackError

from vf.obl import symx, xh
from vf.common import native, pin, pinb
from vf.symx import sym_and

KEYS = ["a", "b", "c"]
ABSENT = "zz"
F_TS = ["rich/theme.py:ThemeStack.push_theme", "rich/theme.py:ThemeStack.pop_theme", "rich/theme.py:ThemeStack.__init__"]


def _sym_dict(e, p):
    """dict over KEYS with solver-chosen presence flags and opaque symbolic values."""
    d = {}
    for k in KEYS:
        present = e.mkbool("%s_has_%s" % (p, k))
        v = e.mk("%s_val_%s" % (p, k), 0, 99)
        if present:
            d[k] = v
    return d


def _theme(d):
    t = Theme({}, inherit=False)
    t.styles = d
    return t


def _eqv(a, b):
    if a is None or b is None:
        return a is None and b is None
    return a == b


@symx("C20-stack-step", timeout=900, kind="S", functions=F_TS,
      bounds="one inductive step from ANY stack of 1 or 2 entries: each entry and the pushed theme is a dict over 3 names with "
             "solver-chosen presence flags and opaque values; inherit symbolic; lookups of the 3 names and one absent name; "
             "push then matching pop; pop on a one-entry stack",
      outside="more than 3 distinct names (the code only merges and looks up); deeper stacks follow by induction",
      stubs=["theme values are opaque integers (ThemeStack never inspects them)",
             "pre-state built directly: _entries list + get bound to the top entry (the class's representation)"])
def c20_step(e):
    d0, d1, pushed = _sym_dict(e, "e0"), _sym_dict(e, "e1"), _sym_dict(e, "p")
    two = e.mkbool("two_entries")
    inherit = e.mkbool("inherit")
    ts = ThemeStack(_theme(d0))
    if two:
        ts._entries.append(d1)
        ts.get = ts._entries[-1].get
    top = dict(ts._entries[-1])
    depth = len(ts._entries)
    snapshot = [dict(x) for x in ts._entries]
    names = KEYS + [ABSENT]
    before = {n: ts.get(n) for n in names}
    ok = True
    inh = True if inherit else False
    ts.push_theme(_theme(pushed), inherit=inh)
    for n in names:
        want = pushed.get(n)
        if want is None and inh:
            want = top.get(n)
        ok = sym_and(ok, _eqv(ts.get(n), want))
    ok = ok and len(ts._entries) == depth + 1
    ts.pop_theme()
    for n in names:
        ok = sym_and(ok, _eqv(ts.get(n), before[n]))
    ok = ok and len(ts._entries) == depth
    for x, y in zip(ts._entries, snapshot):     # earlier entries were not mutated by the push
        ok = ok and list(x.keys()) == list(y.keys())
        for k in y:
            ok = sym_and(ok, x[k] == y[k])
    # the base theme can never be popped
    while len(ts._entries) > 1:
        ts.pop_theme()
    base_before = {n: ts.get(n) for n in names}
    try:
        ts.pop_theme()
        ok = False
    except ThemeStackError:
        pass
    for n in names:
        ok = sym_and(ok, _eqv(ts.get(n), base_before[n]))
    return ok and len(ts._entries) == 1


# --- real Console, reference list-of-dicts model (P) ----------------------------------------------------------
_BASE = {"a": Style(bold=True), "b": Style(italic=True)}
_THEMES = [
    {"a": Style(underline=True), "c": Style(dim=True)},
    {"b": Style(strike=True)},
    {"a": Style(reverse=True), "b": Style(blink=True), "c": Style(conceal=True)},
]
_LOOKUPS = ["a", "b", "c", "bold red", "not a style !"]
F_CON = ["rich/console.py:Console.push_theme", "rich/console.py:Console.pop_theme", "rich/console.py:Console.use_theme",
         "rich/console.py:ThemeContext.__enter__", "rich/console.py:ThemeContext.__exit__", "rich/console.py:Console.get_style"] + F_TS


class _Boom(Exception):
    pass


def _lookup(console, name):
    try:
        return console.get_style(name)
    except MissingStyle:
        return "missing"


def _ref_lookup(stack, name):
    top = stack[-1]
    if name in top:
        return top[name]
    try:
        return Style.parse(name)
    except Exception:
        return "missing"


def _ops_ok(ops, reuse_contexts=False) -> bool:
    """ops: list of (kind, theme, inherit).  kind: 0 push, 1 pop, 2 use_theme block, 3 use_theme block that raises.
    reuse_contexts: the object returned by use_theme(theme, inherit) is kept and entered again by later blocks."""
    ctxs = {}
    console = Console(file=io.StringIO(), theme=Theme(dict(_BASE), inherit=False), width=40)
    stack = [dict(_BASE)]

    def agree():
        return all(_lookup(console, n) == _ref_lookup(stack, n) for n in _LOOKUPS)

    if not agree():
        return False
    themes = [Theme(dict(t), inherit=False) for t in _THEMES]     # the SAME Theme objects are pushed again and again
    for kind, ti, inherit in ops:
        theme = themes[ti]
        if kind == 0:
            console.push_theme(theme, inherit=inherit)
            stack.append({**stack[-1], **_THEMES[ti]} if inherit else dict(_THEMES[ti]))
        elif kind == 1:
            if len(stack) == 1:
                try:
                    console.pop_theme()
                    return False
                except ThemeStackError:
                    pass
            else:
                console.pop_theme()
                stack.pop()
        else:
            before = [_lookup(console, n) for n in _LOOKUPS]
            inside = {**stack[-1], **_THEMES[ti]} if inherit else dict(_THEMES[ti])
            ctx = ctxs.get((ti, inherit)) if reuse_contexts else None
            if ctx is None:
                ctx = ctxs[(ti, inherit)] = console.use_theme(theme, inherit=inherit)
            try:
                with ctx:
                    if not all(_lookup(console, n) == _ref_lookup([inside], n) for n in _LOOKUPS):
                        return False
                    if kind == 3:
                        raise _Boom()
            except _Boom:
                if kind != 3:
                    return False
            if [_lookup(console, n) for n in _LOOKUPS] != before:
                return False
        if not agree():
            return False
    return True


def _mk_console(nops, tiers, timeout):
    def pre(k0: int, k1: int, k2: int) -> bool:
        return 0 <= k0 < 24 and 0 <= k1 < 24 and 0 <= k2 < (24 if nops >= 3 else 1)

    @xh("C20-console-%dops" % nops, pre=pre, tiers=tiers, timeout=timeout, kind="P", functions=F_CON,
        bounds="real Console with a non-inheriting base theme; every sequence of %d operations from {push(inherit?), pop, "
               "use_theme(inherit?) block, use_theme block exited by exception} x 3 themes with overlapping names "
               "(solver-enumerated, executed natively), once with a fresh use_theme() object per block and once re-entering the "
               "object an earlier block obtained; lookups of 3 names, a style definition and a non-style after every step"
               % nops)
    def h(k0: int, k1: int, k2: int) -> bool:
        ks = [pin(k0, 0, 23), pin(k1, 0, 23)] + ([pin(k2, 0, 23)] if nops >= 3 else [])
        ops = [(k // 6, (k // 2) % 3, bool(k % 2)) for k in ks]
        return native(_ops_ok, ops) and native(_ops_ok, ops, True)
    return h


_mk_console(2, ("quick", "thorough"), 600)
_mk_console(3, ("thorough",), 3000)


# --- config round trip (P) --------------------------------------------------------------------------------------
_ATTRS = ["bold", "dim", "italic", "underline", "blink", "blink2", "reverse", "conceal", "strike", "underline2",
          "frame", "encircle", "overline"]
_COLS = [None, "red", "color(100)", "#ff00ff", "default"]


def _cfg_ok(i, vi, c, b, link) -> bool:
    kw = {}
    if i < 13:
        kw[_ATTRS[i]] = vi
    if _COLS[c]:
        kw["color"] = _COLS[c]
    if _COLS[b]:
        kw["bgcolor"] = _COLS[b]
    if link:
        kw["link"] = "http://example.org/x"
    styles = {"my.style": Style(**kw), "other": Style(bold=True)}
    theme = Theme(styles, inherit=False)
    back = Theme.from_file(io.StringIO(theme.config), inherit=False)
    if back.styles != theme.styles:
        return False
    # a second, different theme read in the same process: nothing of the first one may appear in it
    theme2 = Theme({"third.name": Style(**kw) if kw else Style(italic=True)}, inherit=False)
    back2 = Theme.from_file(io.StringIO(theme2.config), inherit=False)
    return back2.styles == theme2.styles and Theme.from_file(io.StringIO(theme.config), inherit=False).styles == theme.styles


def _pre_cfg(i: int, vi: bool, c: int, b: int, link: bool) -> bool:
    return 0 <= i <= 13 and 0 <= c < len(_COLS) and 0 <= b < len(_COLS)


@xh("C20-config-roundtrip", pre=_pre_cfg, timeout=900, kind="P", functions=["rich/theme.py:Theme.config", "rich/theme.py:Theme.from_file"],
    bounds="themes whose style has at most one attribute (on/off), colour and bgcolor from 5 spellings, optional link without '%' "
           "(solver-enumerated, executed natively): Theme.from_file(Theme.config) has equal styles; then a second theme "
           "with a different name set is round-tripped in the same process, and the first once more (reads are independent)",
    outside="links containing '%' (configparser interpolation), names outside [a-z.]")
def c20_cfg(i: int, vi: bool, c: int, b: int, link: bool) -> bool:
    return native(_cfg_ok, pin(i, 0, 13), pinb(vi), pin(c, 0, len(_COLS) - 1), pin(b, 0, len(_COLS) - 1), pinb(link))


@symx("C20-console-repush-4ops", timeout=900, kind="P", functions=F_CON,
      bounds="real Console, every sequence of 4 operations from {push(theme 0|1|2, inherit=True), push(theme 0|1, inherit=False), pop} "
             "re-using the same three Theme objects (solver-enumerated, native), lookups after every step against the reference "
             "list-of-dicts model: pushing a theme object a second time over a different stack top resolves like a first push")
def c20_repush(e):
    ops = []
    for i in range(4):
        k = int(e.mk("op%d" % i, 0, 5))
        if k <= 2:
            ops.append((0, k, True))
        elif k <= 4:
            ops.append((0, k - 3, False))
        else:
            ops.append((1, 0, True))
    return _ops_ok(ops)
