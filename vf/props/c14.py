"""C14 - no input makes the pipeline fail with an undocumented error (DESIGN.md 5, C14)."""
import io

from rich.ansi import AnsiDecoder
from rich.color import Color, ColorParseError
from rich.console import Console
from rich.errors import MarkupError, MissingStyle, StyleSyntaxError
from rich.markup import render
from rich.text import Text

from vf.obl import symx, xh
from vf.common import color_parse, native, over, pin, style_parse

ARABIC3 = "\u0663"      # ARABIC-INDIC DIGIT THREE: matches \d, int() accepts it
SUP2 = "\u00b2"         # SUPERSCRIPT TWO: str.isdigit() is True, int() rejects it


def _mk_color(name, prefix, suffix, alphabet, n, tiers, timeout):
    def pre(x: str) -> bool:
        return len(x) == n and over(x, alphabet)

    @xh("C14-color-%s-len%d" % (name, n), pre=pre, tiers=tiers, timeout=timeout, kind="S", raises=(ColorParseError,),
        functions=["rich/color.py:Color.parse", "rich/color.py:RE_COLOR"], stubs=["S2"],
        bounds="Color.parse(%r + X + %r) for every X of length %d over %r: returns a Color or raises ColorParseError only"
               % (prefix, suffix, n, alphabet))
    def h(x: str) -> bool:
        c = color_parse(prefix + x + suffix)
        return isinstance(c, Color)
    return h


for _n in (0, 1, 2, 3):
    _mk_color("rgb", "rgb(", ")", "1" + ARABIC3 + ", ", _n, ("quick", "thorough"), 300)
for _n in (4, 5):
    _mk_color("rgb", "rgb(", ")", "1" + ARABIC3 + ", ", _n, ("thorough",), 2400)
for _n in (0, 1, 2, 3):
    _mk_color("index", "color(", ")", "19" + ARABIC3, _n, ("quick", "thorough"), 300)
_mk_color("index", "color(", ")", "19" + ARABIC3, 4, ("thorough",), 1200)
_mk_color("hexq", "#", "", "0g", 6, ("quick", "thorough"), 600)
for _n in (5, 6, 7):
    _mk_color("hex", "#", "", "0fg", _n, ("thorough",), 2400)
# hexadecimal words containing decimal digits outside ASCII (they match \d and int() accepts them, other converters may not)
_mk_color("hexd", "#", "", "f" + ARABIC3, 6, ("quick", "thorough"), 600)
_mk_color("hexd3", "#", "", "0f" + ARABIC3, 6, ("thorough",), 2400)
for _n in (1, 2):
    _mk_color("free", "", "", "rgb(),#1", _n, ("quick", "thorough"), 600)
_mk_color("free", "", "", "rgb(),#1", 3, ("thorough",), 1500)
_mk_color("free", "", "", "rgb(),#1", 4, ("thorough",), 3000)


# --- Style.parse / Console.get_style over token sequences (P) ------------------------------------------------------
_STOK = ["bold", "not", "on", "link", "red", "#ff0000", "rgb(,,)", "rgb(1 2,3,4)", "x", "", "color(999)", "none"]
_CON = Console(file=io.StringIO(), width=40)


def _style_ok(ks) -> bool:
    text = " ".join(_STOK[k] for k in ks)
    try:
        style_parse(text)
    except StyleSyntaxError:
        pass
    try:
        _CON.get_style(text)
    except MissingStyle:
        pass
    _CON.get_style(text, default="bold")
    return True


@symx("C14-style-tokens", timeout=1500, kind="P",
      functions=["rich/style.py:Style.parse", "rich/console.py:Console.get_style", "rich/color.py:Color.parse"],
      bounds="every definition of 1..4 words from %r (solver-enumerated, native): Style.parse raises only StyleSyntaxError, "
             "Console.get_style only MissingStyle, get_style(default=) nothing" % (_STOK,))
def c14_style(e):
    n = int(e.mk("n", 1, 4))
    ks = [int(e.mk("k%d" % i, 0, len(_STOK) - 1)) for i in range(n)]
    return _style_ok(ks)


# --- markup render, AnsiDecoder, Text, print(markup=False) over symbolic strings (S) --------------------------------
def _mk_markup(n, tiers, timeout):
    def pre(s: str) -> bool:
        return len(s) == n and over(s, "[]\\/=a# ")

    @xh("C14-markup-len%d" % n, pre=pre, tiers=tiers, timeout=timeout, kind="S", raises=(MarkupError,), stubs=["S2"],
        functions=["rich/markup.py:render"], bounds="markup.render(s) for every s of length %d over {[ ] \\ / = a # space}: "
                                                     "returns a Text or raises MarkupError only" % n)
    def h(s: str) -> bool:
        return isinstance(render(s), Text)
    return h


for _n, _t, _to in [(2, ("quick", "thorough"), 120), (3, ("quick", "thorough"), 400), (4, ("quick", "thorough"), 1200),
                    (5, ("thorough",), 3400)]:
    _mk_markup(_n, _t, _to)

_ANSI_SIGMA = "\x1b[]m;148\\a" + SUP2


def _mk_ansi(n, tiers, timeout):
    def pre(s: str) -> bool:
        return len(s) == n and over(s, _ANSI_SIGMA)

    @xh("C14-ansi-decoder-len%d" % n, pre=pre, tiers=tiers, timeout=timeout, kind="S", stubs=["S2"],
        functions=["rich/ansi.py:AnsiDecoder.decode", "rich/ansi.py:AnsiDecoder.decode_line", "rich/ansi.py:_ansi_tokenize"],
        bounds="AnsiDecoder().decode(s) for every s of length %d over {ESC [ ] m ; 1 4 8 \\ a U+00B2}: never raises" % n)
    def h(s: str) -> bool:
        out = list(AnsiDecoder().decode(s))
        return len(out) <= 1
    return h


for _n, _t, _to in [(3, ("quick", "thorough"), 300), (4, ("quick", "thorough"), 900), (5, ("quick", "thorough"), 2400)]:
    _mk_ansi(_n, _t, _to)


def _print_ok(s, soft) -> bool:
    c = Console(file=io.StringIO(), width=10, color_system=None)
    c.print(s, markup=False, soft_wrap=soft)
    c.print(Text(s))
    c.print(s, markup=False, highlight=False, emoji=False)
    return isinstance(c.file.getvalue(), str)


_PRINT_SIGMA = "a [\n\t\u4e2d\u0301\x1b\r:\\\U000f0001\U0001f600"


def _mk_print(nmax, tiers, timeout):
    @symx("C14-print-plain-len%d" % nmax, tiers=tiers, timeout=timeout, kind="P",
          functions=["rich/console.py:Console.print", "rich/text.py:Text.__init__", "rich/console.py:Console.render_str"],
          bounds="Console.print(s, markup=False) and print(Text(s)) for every s of 0..%d characters over %r (ASCII, bracket, newline, "
                 "tab, double-width, combining, ESC, CR, private-use astral, emoji; solver-enumerated, native), width 10, soft_wrap "
                 "on/off: never raises" % (nmax, _PRINT_SIGMA))
    def h(e):
        n = int(e.mk("n", 0, nmax))
        cs = [int(e.mk("c%d" % i, 0, len(_PRINT_SIGMA) - 1)) for i in range(n)]
        soft = e.mkbool("soft_wrap")
        s = "".join(_PRINT_SIGMA[c] for c in cs)
        return _print_ok(s, True if soft else False)
    return h


_mk_print(3, ("quick",), 900)
_mk_print(4, ("thorough",), 2400)


# --- rendering and measuring never raise, at any width >= 1 (C+S) -----------------------------------------------------
from rich.measure import Measurement  # noqa: E402
from vf import catalogue as cat  # noqa: E402


def _mk_noraise(lo, hi, tiers, timeout, wmax):
    @symx("C14-render-noraise-w%d-trees%d-%d" % (wmax, lo, hi), tiers=tiers, timeout=timeout, kind="C+S",
          functions=["rich/console.py:Console.render", "rich/measure.py:Measurement.get", "<each tree's __rich_console__/__rich_measure__>"],
          bounds="catalogue trees %s x every width 1..%d, including widths far below the structural minimum, x legacy_windows "
                 "(solver-enumerated, native): Console.render, Console.print and Measurement.get terminate without raising"
                 % (cat.NAMES[lo:hi], wmax))
    def h(e):
        i = int(e.mk("tree", lo, hi - 1))
        name, factory, smin = cat.TREES[i]
        w = int(e.mk("width", 1, wmax))
        legacy = bool(e.mkbool("legacy_windows"))
        c = cat.console(legacy_windows=legacy, force_terminal=legacy, width=w)
        cat.render_lines(c, factory(), w)
        Measurement.get(c, factory(), w)
        c.print(factory())
        return True
    return h


_NTR = len(cat.TREES)
for _lo in range(0, _NTR, 9):
    _mk_noraise(_lo, min(_NTR, _lo + 9), ("quick",), 900, 40)
    _mk_noraise(_lo, min(_NTR, _lo + 9), ("thorough",), 3000, 200)


@symx("C14-ansi-long-parameters", timeout=300, kind="P", functions=["rich/ansi.py:AnsiDecoder.decode_line"],
      bounds="SGR sequences whose parameter is a run of 1, 3, 4, 19, 4300, 4301 or 5000 digits ('1' or '9'), alone and after '38;5;': "
             "the decoder never raises (very long digit runs exceed CPython's int() conversion limit)")
def c14_ansi_long(e):
    k = [1, 3, 4, 19, 4300, 4301, 5000][int(e.mk("digits", 0, 6))]
    d = "19"[int(e.mk("digit", 0, 1))]
    prefix = ["", "38;5;", "48;2;1;"][int(e.mk("prefix", 0, 2))]
    out = list(AnsiDecoder().decode("\x1b[" + prefix + d * k + "mx"))
    return len(out) == 1 and out[0].plain == "x"


# --- the same styled object rendered repeatedly, and text whose control codes are stripped before styling (P) -----------------
from rich.panel import Panel  # noqa: E402
from rich.table import Table  # noqa: E402


def _styled_text(justify):
    t = Text("hello brave world", justify=justify)
    t.stylize("bold", 0, 5)
    t.stylize("red", 6, 17)
    return t


def _styled_table(justify):
    tb = Table()
    tb.add_column("h", justify=justify)
    tb.add_row(_styled_text(None))
    tb.add_row("[b]x[/b] y")
    return tb


_REPEAT = [lambda j: _styled_text(j), lambda j: Panel(_styled_text(j)), _styled_table, lambda j: Panel.fit(_styled_table(j))]


@symx("C14-render-repeated-styled", timeout=900, kind="P",
      functions=["rich/console.py:Console.print", "rich/text.py:Text.wrap", "rich/text.py:Text.copy", "rich/containers.py:Lines.justify",
                 "rich/text.py:Text.render"],
      bounds="ONE object from {styled Text, Panel of it, Table with a styled Text cell and a markup cell, Panel.fit of that table} x "
             "justify in {left, center, right, full} printed three times and measured in between, at three solver-chosen widths "
             "1..24 (step: 1,2,3,5,8,13,20,24): never raises (a render must not leave the object in a state the next one chokes on)")
def c14_repeated(e):
    mk = _REPEAT[int(e.mk("object", 0, len(_REPEAT) - 1))]
    r = mk(["left", "center", "right", "full"][int(e.mk("justify", 0, 3))])
    widths = [1, 2, 3, 5, 8, 13, 20, 24]
    for i in range(3):
        w = widths[int(e.mk("w%d" % i, 0, len(widths) - 1))]
        c = cat.console(width=w)
        c.print(r)
        Measurement.get(c, r, w)
    return True


_CTOK = ["\r", "\x08", "\x0b", "[b]", "[/b]", "X", "[red]", "[/]", "\x1b[32m", "\x1b[0m"]


@symx("C14-control-codes-then-styling", timeout=900, kind="P",
      functions=["rich/console.py:Console.print", "rich/markup.py:render", "rich/text.py:Text.append", "rich/text.py:Text.assemble",
                 "rich/ansi.py:AnsiDecoder.decode_line", "rich/control.py:strip_control_codes"],
      bounds="every string of 4 tokens from %r (control characters that Text strips, markup tags, SGR sequences) printed with markup "
             "enabled (MarkupError allowed), assembled piecewise with Text.assemble / append with a style, and decoded by AnsiDecoder "
             "then printed: nothing else is raised (solver-enumerated, native)" % (_CTOK,))
def c14_ctrl_then_style(e):
    toks = [_CTOK[int(e.mk("t%d" % i, 0, len(_CTOK) - 1))] for i in range(4)]
    s = "".join(toks)
    c = cat.console(width=10)
    try:
        c.print(s)
    except MarkupError:
        pass
    c.print(Text.assemble(*[(tok, "italic") if i % 2 else tok for i, tok in enumerate(toks)]))
    t = Text()
    for i, tok in enumerate(toks):
        t.append(tok, "bold" if i % 2 == 0 else None)
    c.print(t)
    for line in AnsiDecoder().decode(s):
        c.print(line)
    return True
