# edited by hand; consumed by tools_mkmanifest.py
_NOTE = ("Trusted: CPython, z3 5.1, CrossHair's models of str/int/list, the harness-side stubs listed per obligation in the "
         "evidence (cell_len memo pass-through, real-valued floats for int*int/int quotients, lru_cache bypass). "
         "Claims hold only inside the bounds stated per obligation.")
CLAIMED["C13"] = (
 "bounded symbolic execution of rich.cells / rich.segment with z3 (symx over all code points; CrossHair over symbolic strings)",
 "Every code point 0..0x10FFFF is decided symbolically against a linear scan of the width table; set_cell_size / chop_cells / "
 "segment shaping are decided for all strings over a mixed-width alphabet up to a stated length and all sizes in range.",
 _NOTE, "DESIGN.md 5 C13")
_PENDING = "check not built yet in this session (planned, DESIGN.md 5); not claimed until its obligations run"
for _p in ["C01","C02","C03","C04","C05","C06","C07","C08","C09","C10","C12","C14","C15","C16","C18","C19","C20"]:
    NA[_p] = _PENDING
NA["C11"] = "quantifies over thread schedules of the real console/live code; no engine here can make the schedule a solver variable (DESIGN.md 6)"
NA["C17"] = "decided by third-party Pygments lexers (C regex engine) and linecache; cannot be executed symbolically (DESIGN.md 6)"
