"""C07 - tables are rectangles (DESIGN.md 5, C07)."""
from rich import box as box_mod

from vf.obl import symx, xh
from vf.common import native, pin, pinb, ref_width_concrete
from vf.symx import sym_and, sym_implies
from vf import kernel
from vf.props.c01 import F_K, K_STUBS, OPTSETS


def _mk_expand(n, oname, tiers, timeout, wmax=60):
    opts = dict(OPTSETS[oname])
    opts["expand"] = True
    if opts.get("ratios"):
        opts["ratios"] = opts["ratios"][:n]

    @symx("C07-kernel-expand-%dcol-%s" % (n, oname), tiers=tiers, timeout=timeout, kind="S", functions=F_K, stubs=K_STUBS,
          opts={"query_timeout_ms": 900000},
          bounds="%d flexible columns without width caps, expand=True, cell measurements 0<=min<=max<=40 symbolic, budget from the "
                 "structural minimum to %d symbolic, options %r: the column widths sum to exactly the budget" % (n, wmax, opts),
          outside="more than 3 columns; columns with explicit width / max_width (the statement excludes caps)")
    def h(e):
        t, cells = kernel.mk_table(e, n, opts)
        w = e.mk("w", kernel.structural_min(t, n), wmax)
        widths = t._calculate_column_widths(kernel.console(), w)
        return sum(widths) == w
    return h


for _o in ["plain", "pad", "pad-collapse", "ratio-expand", "ratio-mixed-expand", "pad-noedge-expand"]:
    _mk_expand(2, _o, ("quick", "thorough"), 600)
for _o in ["plain", "ratio-expand"]:
    _mk_expand(3, _o, ("quick", "thorough"), 900)
for _o in ["pad", "pad-collapse", "ratio-mixed-expand", "pad-noedge-expand"]:
    _mk_expand(3, _o, ("thorough",), 3000)


def _mk_capped(n, tiers, timeout):
    @symx("C07-kernel-capped-%dcol" % n, tiers=tiers, timeout=timeout, kind="S", functions=F_K, stubs=K_STUBS,
          opts={"query_timeout_ms": 900000},
          bounds="%d columns, first one with a symbolic max_width cap in [1,20], expand symbolic-by-case: widths still sum to at "
                 "most the budget" % n,
          outside="column min_width (not in the property's quantifier: a column min_width above its share makes the table overflow)")
    def h(e):
        cap = e.mk("cap", 1, 20)
        opts = {"expand": True if e.mkbool("expand") else False, "col_max": [cap] + [None] * (n - 1)}
        t, cells = kernel.mk_table(e, n, opts)
        w = e.mk("w", 0, 60)
        e.assume(w >= kernel.structural_min(t, n))
        widths = t._calculate_column_widths(kernel.console(), w)
        return sum(widths) <= w
    return h


_mk_capped(2, ("quick", "thorough"), 600)
_mk_capped(3, ("thorough",), 3000)


# --- box rows (P) ---------------------------------------------------------------------------------------------------
_BOXES = sorted(n for n in dir(box_mod) if isinstance(getattr(box_mod, n), box_mod.Box))
_LEVELS = ["top", "bottom", "head", "row", "mid", "foot"]


def _box_ok(bi, n, w0, w1, w2) -> bool:
    b = getattr(box_mod, _BOXES[bi])
    widths = [w0, w1, w2][:n]
    for level in _LEVELS:
        for edge in (True, False):
            if level == "top":
                s, e = b.get_top(widths), True
            elif level == "bottom":
                s, e = b.get_bottom(widths), True
            else:
                s, e = b.get_row(widths, level, edge=edge), edge
            want = sum(widths) + (n - 1) + (2 if e else 0)
            if not (ref_width_concrete(s) == want and len(s) == want and "\n" not in s):
                return False
    return True


def _mk_box(bi):
    def pre(n: int, w0: int, w1: int, w2: int) -> bool:
        return 1 <= n <= 3 and 0 <= w0 <= 4 and 0 <= w1 <= 4 and 0 <= w2 <= 4 and (n >= 2 or w1 == 0) and (n >= 3 or w2 == 0)

    @xh("C07-box-rows-%s" % _BOXES[bi], pre=pre, timeout=600, kind="P",
        functions=["rich/box.py:Box.get_top", "rich/box.py:Box.get_row", "rich/box.py:Box.get_bottom"],
        bounds="box %s x {top,bottom,head,row,mid,foot} x edge on/off x 1..3 columns x widths 0..4 (widths solver-enumerated, "
               "native): each border row is exactly sum(widths) + dividers + edges cells wide" % _BOXES[bi])
    def h(n: int, w0: int, w1: int, w2: int) -> bool:
        return native(_box_ok, bi, pin(n, 1, 3), pin(w0, 0, 4), pin(w1, 0, 4), pin(w2, 0, 4))
    return h


for _bi in range(len(_BOXES)):
    _mk_box(_bi)
