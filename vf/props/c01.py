"""C01 - rendered output never exceeds the available width (DESIGN.md 5, C01)."""
from vf.obl import symx, xh
from vf.symx import sym_and, sym_implies, sym_or
from vf import kernel

F_K = ["rich/table.py:Table._calculate_column_widths", "rich/table.py:Table._collapse_widths", "rich/table.py:Table._measure_column",
       "rich/_ratio.py:ratio_reduce", "rich/_ratio.py:ratio_distribute", "rich/measure.py:Measurement.get",
       "rich/measure.py:Measurement.normalize", "rich/measure.py:Measurement.with_maximum", "rich/measure.py:Measurement.clamp",
       "rich/padding.py:Padding.__rich_measure__"]
K_STUBS = ["S7: cells are stub renderables with symbolic (min,max) measurements", "S3: min/max merged into If-terms",
           "L1: int*int/int quotients are exact rationals (round/ceil exact)"]

OPTSETS = {
    "plain": {},
    "expand": {"expand": True},
    "pad": {"padding": (0, 1)},
    "pad-expand": {"padding": (0, 1), "expand": True},
    "pad-collapse": {"padding": (0, 2, 0, 1), "collapse_padding": True},
    "pad-noedge-expand": {"padding": (0, 1), "pad_edge": False, "expand": True},
    "ratio-expand": {"expand": True, "ratios": [1, 2, 1, 2]},
    "ratio-mixed-expand": {"expand": True, "ratios": [None, 2, 1, None], "padding": (0, 1)},
    "minwidth": {"min_width": 30},
}


def _mk_kernel(n, oname, tiers, timeout, wmax=60):
    opts = dict(OPTSETS[oname])
    if opts.get("ratios"):
        opts["ratios"] = opts["ratios"][:n]

    @symx("C01-kernel-%dcol-%s" % (n, oname), tiers=tiers, timeout=timeout, kind="S", functions=F_K, stubs=K_STUBS,
          opts={"query_timeout_ms": 900000},
          bounds="%d flexible wrappable columns, cell measurements 0<=min<=max<=40 symbolic, column-width budget from the "
                 "structural minimum (1 cell + padding per column) to %d symbolic, options %r" % (n, wmax, opts),
          outside="more columns (4 columns did not finish in 600 s), no_wrap / fixed-width columns (not 'free to wrap')")
    def h(e):
        t, cells = kernel.mk_table(e, n, opts)
        smin = kernel.structural_min(t, n)
        w = e.mk("w", smin, wmax)
        widths = t._calculate_column_widths(kernel.console(), w)
        total = sum(widths)
        ok = total <= w
        for x in widths:
            ok = sym_and(ok, x >= 0)
        return ok
    return h


for _o in ["plain", "expand", "pad", "pad-expand", "pad-collapse", "ratio-expand", "minwidth"]:
    _mk_kernel(2, _o, ("quick", "thorough"), 300)
for _o in ["pad-noedge-expand", "ratio-mixed-expand"]:
    _mk_kernel(2, _o, ("thorough",), 600)
for _o in ["plain", "ratio-expand"]:
    _mk_kernel(3, _o, ("quick", "thorough"), 900)
for _o in ["expand", "pad", "pad-expand", "pad-collapse", "ratio-mixed-expand", "minwidth", "pad-noedge-expand"]:
    _mk_kernel(3, _o, ("thorough",), 3000)
