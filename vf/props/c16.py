"""C16 - pretty-printed data evaluates back to the data (DESIGN.md 5, C16)."""
from array import array
from collections import Counter, defaultdict, deque

from rich.cells import cell_len
from rich.pretty import pretty_repr

from vf.obl import symx

F_P = ["rich/pretty.py:pretty_repr", "rich/pretty.py:traverse", "rich/pretty.py:Node.render", "rich/pretty.py:Node.check_length",
       "rich/pretty.py:Node.iter_tokens", "rich/pretty.py:_Line.expand", "rich/pretty.py:_BRACES"]
BASIC = (list, tuple, dict, set, frozenset)
CONTAINERS = BASIC + (deque, Counter, defaultdict, array)
_NS = {"deque": deque, "Counter": Counter, "defaultdict": defaultdict, "array": array, "frozenset": frozenset, "set": set}


def _catalogue():
    leaves = [0, -1, 1.5, True, None, "a", "中'", b"x", "a\nb"]
    vals = []
    # depth 1
    for a, b in [(0, "a"), (-1, 1.5), ("中'", None), (True, b"x"), ("a\nb", 0)]:
        vals += [[a, b], (a, b), {a: b}, (a,), [b]]
    vals += [[], (), {}, set(), frozenset(), deque(), Counter(), defaultdict(int), array("i"), array("d", [1.5, 2.0]),
             array("i", [1, 2, 3]), {1, 2}, frozenset({"a"}), deque([1, "a"]), Counter("aab"), defaultdict(int, {"k": 1}),
             [0, 1, 2, 3, 4], {"k1": 1, "k2": 2, "k3": 3}, "a long string value", ["abcdef", "中中中"]]
    # depth 2 / 3
    vals += [[[1, 2], [3]], ([], ()), {"k": [1, (2,)]}, [{"a": {1}}, frozenset({(1, 2)})], ((1,),), [(), [[]]],
             {"x": {"y": {"z": [1, 2]}}}, [deque([1]), Counter("a")], {(1, 2): [3, 4], "k": ()}, [[[[0]]]],
             [array("i", [1]), array("i")], (defaultdict(int), [defaultdict(list, {"a": [1]})]), [set(), {frozenset()}],
             [1, [2, [3, [4, 5]]], "中'"], {"a": "a\nb", "b": b"x"}, [None, True, 1.5, -1]]
    # the same (empty / non-empty) object occurring more than once is not a cycle
    shared_empty, shared = [], [1]
    vals += [((), ()), [(), [], ()], {"a": (), "b": ()}, [shared_empty, shared_empty], [shared, shared, [shared]],
             (frozenset(), frozenset()), {"k": shared, "l": [shared]}]
    # one-element tuples around containers that are not tuples
    vals += [([1, 2],), ({"a": 1},), [([1],), 0], ({1, 2},), (deque([1]),), {"k": ([1, 2],)}]
    # arrays whose items are created on the fly while iterating (temporaries may re-use an address)
    vals += [array("d", [1.5, 2.5, 3.5]), [array("d", [0.5, 1.5, 2.5, 3.5]), array("f", [1.0, 2.0, 3.0])],
             {"k": array("d", [1.5, 2.5, 3.5, 4.5, 5.5])}]
    return vals


VALUES = _catalogue()


def only_basic(v) -> bool:
    if type(v) in BASIC:
        items = list(v.items()) if isinstance(v, dict) else [(None, x) for x in v]
        return all(only_basic(k) and only_basic(x) for k, x in items)
    return type(v) not in CONTAINERS


def same_typed(a, b) -> bool:
    if type(a) is not type(b) or a != b:
        return False
    if isinstance(a, dict):
        return all(same_typed(a[k], b[k]) for k in a)
    if isinstance(a, (list, tuple, deque)):
        return len(a) == len(b) and all(same_typed(x, y) for x, y in zip(a, b))
    return True


# --- reference one-line form with abbreviations -------------------------------------------------------------------
def ref_repr(v, ml=None, ms=None, seen=()):
    t = type(v)
    if t in CONTAINERS:
        if id(v) in seen:
            return "..."
        seen = seen + (id(v),)
        n = len(v)
        if isinstance(v, dict):
            parts = [ref_leaf(k, ms) + ": " + ref_repr(x, ml, ms, seen) for k, x in v.items()]
        else:
            parts = [ref_repr(x, ml, ms, seen) for x in v]
        if ml is not None and n > ml:
            parts = parts[:ml] + ["... +%d" % (n - ml)]
        body = ", ".join(parts)
        if t is tuple and len(parts) == 1:
            body += ","
        if not n:
            return {list: "[]", tuple: "()", dict: "{}", set: "set()", frozenset: "frozenset()", deque: "deque()",
                    Counter: "Counter()", defaultdict: None, array: None}[t] or (
                "defaultdict(%r, {})" % (v.default_factory,) if t is defaultdict else "array(%r)" % (v.typecode,))
        return {list: "[%s]", tuple: "(%s)", dict: "{%s}", set: "{%s}", frozenset: "frozenset({%s})", deque: "deque([%s])",
                Counter: "Counter({%s})", defaultdict: "defaultdict(%r, {%%s})" % (getattr(v, "default_factory", None),),
                array: "array(%r, [%%s])" % (getattr(v, "typecode", None),)}[t] % body
    return ref_leaf(v, ms)


def ref_leaf(v, ms):
    if ms is not None and isinstance(v, (str, bytes)) and len(v) > ms:
        return "%r+%d" % (v[:ms], len(v) - ms)
    return repr(v)


def norm(s: str) -> str:
    """', ' and ',' are the same separator; a trailing comma before a closing bracket is layout, not content
    (the expanded form of a one-element tuple ends in '),' even as the last item)."""
    s = s.replace(", ", ",")
    for close in ")]}":
        s = s.replace("," + close, close)
    return s


def flatten(s: str) -> str:
    """Undo the layout: join the lines without their indentation."""
    return norm("".join(line.strip() for line in s.split("\n")))


def layout_ok(s: str, w: int, ind: int, v) -> bool:
    """one item per line with consistent indentation; a non-empty container stays on one line only if that line fits"""
    lines = s.split("\n")
    depth = 0
    opens = ("[", "{", "(")
    for line in lines:
        body = line.lstrip(" ")
        indent = len(line) - len(body)
        core = body[:-1] if body.endswith(",") else body
        is_close = core[:1] in ("]", "}", ")")
        if is_close:
            depth -= 1
        if len(lines) > 1 and indent != depth * ind:
            return False
        if core.endswith(opens) and not is_close and not _evaluates(core):
            depth += 1
            continue
        if is_close:
            continue
        # an item line: if it is too wide it must not hold an expandable (non-empty) container
        if cell_len(line) > w:
            expr = core
            val = _try_eval(expr)
            if val is _FAIL and ": " in expr:
                val = _try_eval(expr.split(": ", 1)[1])
            if val is not _FAIL and type(val) in CONTAINERS and len(val) > 0:
                return False
    return depth == 0


_FAIL = object()


def _try_eval(expr):
    try:
        return eval(expr, dict(_NS))
    except Exception:
        return _FAIL


def _evaluates(expr):
    return _try_eval(expr) is not _FAIL


def _mk_layout(lo, hi, tiers, timeout):
    @symx("C16-layout-values%d-%d" % (lo, hi), tiers=tiers, timeout=timeout, kind="C+S", functions=F_P,
          bounds="catalogue values %d..%d of %d (containers list/tuple/dict/set/frozenset/deque/Counter/defaultdict/array nested to "
                 "depth 4 over int/float/bool/None/str with wide char, quote, newline/bytes leaves) x max_width 1..40 x indent_size "
                 "1..4 x expand_all (solver-enumerated, native): eval gives an equal value of equal type; equals repr() on one line "
                 "whenever that fits (basic containers); token order preserved at every width; one item per line, indentation = "
                 "indent_size x depth; no over-wide line holds an unexpanded non-empty container" % (lo, hi - 1, len(VALUES)),
          outside="values outside the catalogue (structure dimension is the catalogue, no more); widths above 40")
    def h(e):
        v = VALUES[int(e.mk("value", lo, hi - 1))]
        w = int(e.mk("max_width", 1, 40))
        ind = int(e.mk("indent_size", 1, 4))
        ea = bool(e.mkbool("expand_all"))
        s = pretty_repr(v, max_width=w, indent_size=ind, expand_all=ea)
        one = ref_repr(v)
        if flatten(s) != norm(one):
            return False
        if type(v) is not defaultdict and not any(type(x) is defaultdict for x in _walk(v)):
            back = _try_eval(s)
            if back is _FAIL or not same_typed(back, v):
                return False
        if only_basic(v):
            if one != repr(v):
                return False
            if not ea and cell_len(one) <= w and s != one:
                return False
        if "\n" not in s and type(v) in CONTAINERS and len(v) and (ea or cell_len(s) > w):
            return False
        return layout_ok(s, w, ind, v)
    return h


def _walk(v):
    yield v
    if type(v) in CONTAINERS:
        if isinstance(v, dict):
            for k, x in v.items():
                yield from _walk(k)
                yield from _walk(x)
        else:
            for x in v:
                yield from _walk(x)


_N = len(VALUES)
_STEP = 8
for _lo in range(0, _N, _STEP):
    _mk_layout(_lo, min(_N, _lo + _STEP), ("quick", "thorough") if _lo < 4 * _STEP else ("thorough",), 900)


@symx("C16-abbreviation", timeout=1500, kind="C+S", functions=F_P,
      bounds="every catalogue value x max_length in {None,0..3} x max_string in {None,0..3} x max_width in {1, 12, 200}: the output, "
             "with its layout undone, equals the reference one-line form in which every container longer than max_length shows "
             "max_length items followed by '... +<omitted>' and every str/bytes longer than max_string shows '<prefix>+<omitted>'")
def c16_abbrev(e):
    v = VALUES[int(e.mk("value", 0, _N - 1))]
    ml = int(e.mk("max_length", -1, 3))
    ms = int(e.mk("max_string", -1, 3))
    w = [1, 12, 200][int(e.mk("width", 0, 2))]
    ml = None if ml < 0 else ml
    ms = None if ms < 0 else ms
    s = pretty_repr(v, max_width=w, max_length=ml, max_string=ms)
    want = ref_repr(v, ml, ms)
    if w == 200 and cell_len(want) <= w and s != want:
        return False
    return flatten(s) == norm(want)


@symx("C16-cycles", timeout=300, kind="C+S", functions=F_P,
      bounds="self-referential list, dict, list-in-dict and two-step cycles x max_width 1..30 x expand_all: terminates, the cycle is "
             "cut by an ellipsis marker")
def c16_cycles(e):
    k = int(e.mk("shape", 0, 3))
    w = int(e.mk("max_width", 1, 30))
    ea = bool(e.mkbool("expand_all"))
    if k == 0:
        v = [1]
        v.append(v)
        want = "[1, ...]"
    elif k == 1:
        v = {"a": 1}
        v["self"] = v
        want = "{'a': 1, 'self': ...}"
    elif k == 2:
        inner = [0]
        v = {"k": inner}
        inner.append(v)
        want = "{'k': [0, ...]}"
    else:
        a, b = [1], [2]
        a.append(b)
        b.append(a)
        v = a
        want = "[1, [2, ...]]"
    s = pretty_repr(v, max_width=w, expand_all=ea)
    return flatten(s) == norm(want)


# --- symbolic max_width: every width at once (S over the width; structure from the catalogue) -----------------------------
from vf.symx import SymBool, SymInt, sym_and  # noqa: E402


def _truth(x):
    return True if x else False


def _mk_symw(lo, hi, tiers, timeout):
    @symx("C16-symbolic-width-values%d-%d" % (lo, hi), tiers=tiers, timeout=timeout, kind="S", functions=F_P,
          bounds="catalogue values %d..%d x indent_size 1..4 (enumerated) with max_width SYMBOLIC over 1..1,000,000: Node.render / "
                 "check_length branch on it, so each path is one layout valid for a whole interval of widths; on every path: token "
                 "order equals the reference one-line form, eval round trip, repr equality whenever it fits (basic containers), no "
                 "over-wide line keeps an unexpanded non-empty container" % (lo, hi - 1),
          outside="values outside the catalogue")
    def h(e):
        v = VALUES[int(e.mk("value", lo, hi - 1))]
        ind = int(e.mk("indent_size", 1, 4))
        w = e.mk("max_width", 1, 1000000)
        s = pretty_repr(v, max_width=w, indent_size=ind)
        one = ref_repr(v)
        if flatten(s) != norm(one):
            return False
        if not any(type(x) is defaultdict for x in _walk(v)):
            back = _try_eval(s)
            if back is _FAIL or not same_typed(back, v):
                return False
        if only_basic(v) and _truth(cell_len(one) <= w) and s != one:
            return False
        if "\n" not in s and type(v) in CONTAINERS and len(v) and _truth(cell_len(s) > w):
            return False
        # layout: the same structural checks as layout_ok, with the width comparisons decided by the solver
        for line in s.split("\n"):
            body = line.lstrip(" ")
            core = body[:-1] if body.endswith(",") else body
            if core[:1] in ("]", "}", ")") or (core.endswith(("[", "{", "(")) and not _evaluates(core)):
                continue
            if _truth(cell_len(line) > w):
                val = _try_eval(core)
                if val is _FAIL and ": " in core:
                    val = _try_eval(core.split(": ", 1)[1])
                if val is not _FAIL and type(val) in CONTAINERS and len(val) > 0:
                    return False
        return True
    return h


for _lo in range(0, _N, 16):
    _mk_symw(_lo, min(_N, _lo + 16), ("quick", "thorough"), 900)



# --- one Pretty renderable measured / printed at a sequence of widths (state on the renderable) ------------------------------
from rich.pretty import Pretty  # noqa: E402
from vf import catalogue as _cat  # noqa: E402

_HIST_VALUES = [list(range(8)), {"k1": [1, 2, 3], "k2": ("a", "b")}, ["hello world", "中中中"], [[1, 2], [3, [4, 5]]],
                array("d", [1.5, 2.5, 3.5]), ([1, 2],)]


@symx("C16-pretty-renderable-width-history", timeout=900, kind="P", functions=F_P + ["rich/pretty.py:Pretty.__rich_console__",
                                                                                     "rich/pretty.py:Pretty.__rich_measure__"],
      bounds="ONE Pretty(value) object for %d values, measured and rendered (Pretty.__rich_console__, before any wrapping by the console) at three solver-chosen widths from 4..44 (step 4) in any "
             "order (narrow first, wide first, repeated), optionally measured before each print: every output equals what a fresh "
             "pretty_repr gives for that width, and every measurement equals the widest line of that fresh layout (native)"
             % len(_HIST_VALUES))
def c16_pretty_history(e):
    v = _HIST_VALUES[int(e.mk("value", 0, len(_HIST_VALUES) - 1))]
    measure_first = bool(e.mkbool("measure_before_print"))
    p = Pretty(v)
    for i in range(3):
        w = 4 * int(e.mk("w%d" % i, 1, 11))
        c = _cat.console(width=w)
        fresh = pretty_repr(v, max_width=w)
        if measure_first:
            m = p.__rich_measure__(c, w)
            widest = max(cell_len(line) for line in fresh.splitlines())
            if (m.minimum, m.maximum) != (widest, widest):
                return False
        out = [r for r in p.__rich_console__(c, c.options.update(width=w))]
        if len(out) != 1 or out[0].plain != fresh:
            return False
    return True


# --- a traversal abandoned by an exception leaves nothing behind (P) -------------------------------------------------------------
class _BadFactory:
    """A default_factory whose repr raises (pretty_repr of the defaultdict then raises: the fault point)."""

    def __call__(self):
        return 0

    def __repr__(self):
        raise ValueError("no repr")


@symx("C16-after-failed-traversal", timeout=300, kind="P", functions=F_P,
      bounds="containers (list / dict / tuple-in-list, solver-chosen) that hold, at a solver-chosen depth 1..3, a defaultdict whose "
             "default_factory has a raising repr, or that are nested deeper than the recursion limit allows: pretty_repr raises; the "
             "offending item is then removed and the SAME container objects are formatted again at width 1..30: the result evaluates "
             "back to the value and equals what a structurally equal fresh value gives",
      outside="other fault points (to_repr swallows ordinary leaf repr errors)")
def c16_after_failure(e):
    import sys
    shape = int(e.mk("shape", 0, 2))
    depth = int(e.mk("depth", 1, 3))
    fault = int(e.mk("fault", 0, 1))
    w = int(e.mk("max_width", 1, 30))
    inner = [1, 2]
    holder = inner
    chain = [inner]
    for _ in range(depth - 1):
        holder = [holder, "x"] if shape != 1 else {"k": holder}
        chain.append(holder)
    if fault == 0:
        bad = defaultdict(_BadFactory(), {"a": 1})
    else:
        bad = []
        cur = bad
        for _ in range(sys.getrecursionlimit() * 2):
            nxt = []
            cur.append(nxt)
            cur = nxt
    inner.append(bad)
    top = chain[-1] if shape != 2 else [tuple(chain[-1:])]
    try:
        pretty_repr(top, max_width=w)
        failed = False
    except (ValueError, RecursionError):
        failed = True
    inner.pop()
    if fault == 1:
        del cur, nxt
        # unlink the deep list iteratively so that its deallocation cannot overflow the C stack
        while bad:
            bad = bad.pop()
    got = pretty_repr(top, max_width=w)
    import copy
    fresh = pretty_repr(copy.deepcopy(top), max_width=w)
    return failed and got == fresh and eval(got) == top
