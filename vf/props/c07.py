"""C07 - tables are rectangles (DESIGN.md 5, C07)."""
from rich import box as box_mod

from vf.obl import symx, xh
from vf.common import native, pin, pinb, ref_width_concrete
from vf.symx import sym_and, sym_implies
from vf import kernel
from vf.props.c01 import F_K, K_STUBS, OPTSETS


def _mk_expand(n, oname, tiers, timeout, wmax=240, cell_hi=200):
    opts = dict(OPTSETS[oname])
    opts["expand"] = True
    if opts.get("ratios"):
        opts["ratios"] = opts["ratios"][:n]

    @symx("C07-kernel-expand-%dcol-%s%s" % (n, oname, "" if wmax == 240 else "-w%d" % wmax), tiers=tiers, timeout=timeout, kind="S", functions=F_K, stubs=K_STUBS,
          opts={"query_timeout_ms": 900000},
          bounds="%d flexible columns without width caps, expand=True, cell measurements 0<=min<=max<=%d symbolic, budget from the "
                 "structural minimum to %d symbolic, options %r: the column widths sum to exactly the budget" % (n, cell_hi, wmax, opts),
          outside="more than 3 columns; columns with explicit width / max_width (the statement excludes caps)")
    def h(e):
        t, cells = kernel.mk_table(e, n, opts, cell_hi=cell_hi)
        w = e.mk("w", kernel.structural_min(t, n), wmax)
        widths = t._calculate_column_widths(kernel.console(), w)
        return sum(widths) == w
    return h


for _o in ["plain", "pad", "pad-collapse", "ratio-expand", "ratio-mixed-expand", "pad-noedge-expand"]:
    _mk_expand(2, _o, ("quick", "thorough"), 600)
for _o in ["plain", "ratio-expand"]:
    _mk_expand(3, _o, ("quick", "thorough"), 900)
_mk_expand(3, "ratio-mixed-expand", ("thorough",), 3000)
# three padded expanding columns: with budgets up to 240 z3 answers `unknown` after its 900 s query timeout (non-linear integer
# arithmetic from ratio_distribute over three symbolic widths); the smaller stated bound is decided (cf. C01)
for _o in ["pad-collapse", "pad-noedge-expand"]:
    _mk_expand(3, _o, ("thorough",), 2400, wmax=24, cell_hi=16)
_mk_expand(3, "pad", ("thorough",), 2400, wmax=16, cell_hi=10)      # budget 24 did not finish in 35 min


def _mk_capped(n, tiers, timeout):
    @symx("C07-kernel-capped-%dcol" % n, tiers=tiers, timeout=timeout, kind="S", functions=F_K, stubs=K_STUBS,
          opts={"query_timeout_ms": 900000},
          bounds="%d columns, first one with a symbolic max_width cap in [1,20], expand symbolic-by-case: widths still sum to at "
                 "most the budget" % n,
          outside="column min_width (not in the property's quantifier: a column min_width above its share makes the table overflow)")
    def h(e):
        cap = e.mk("cap", 1, 20)
        opts = {"expand": True if e.mkbool("expand") else False, "col_max": [cap] + [None] * (n - 1)}
        t, cells = kernel.mk_table(e, n, opts, cell_hi=200)
        w = e.mk("w", 0, 240)
        e.assume(w >= kernel.structural_min(t, n))
        widths = t._calculate_column_widths(kernel.console(), w)
        return sum(widths) <= w
    return h


_mk_capped(2, ("quick", "thorough"), 600)
_mk_capped(3, ("thorough",), 3000)


# --- box rows (P) ---------------------------------------------------------------------------------------------------
_BOXES = sorted(n for n in dir(box_mod) if isinstance(getattr(box_mod, n), box_mod.Box))
_LEVELS = ["top", "bottom", "head", "row", "mid", "foot"]


def _box_ok(bi, n, w0, w1, w2) -> bool:
    b = getattr(box_mod, _BOXES[bi])
    widths = [w0, w1, w2][:n]
    for level in _LEVELS:
        for edge in (True, False):
            if level == "top":
                s, e = b.get_top(widths), True
            elif level == "bottom":
                s, e = b.get_bottom(widths), True
            else:
                s, e = b.get_row(widths, level, edge=edge), edge
            want = sum(widths) + (n - 1) + (2 if e else 0)
            if not (ref_width_concrete(s) == want and len(s) == want and "\n" not in s):
                return False
    return True


def _mk_box(bi):
    def pre(n: int, w0: int, w1: int, w2: int) -> bool:
        return 1 <= n <= 3 and 0 <= w0 <= 4 and 0 <= w1 <= 4 and 0 <= w2 <= 4 and (n >= 2 or w1 == 0) and (n >= 3 or w2 == 0)

    @xh("C07-box-rows-%s" % _BOXES[bi], pre=pre, timeout=600, kind="P",
        functions=["rich/box.py:Box.get_top", "rich/box.py:Box.get_row", "rich/box.py:Box.get_bottom"],
        bounds="box %s x {top,bottom,head,row,mid,foot} x edge on/off x 1..3 columns x widths 0..4 (widths solver-enumerated, "
               "native): each border row is exactly sum(widths) + dividers + edges cells wide" % _BOXES[bi])
    def h(n: int, w0: int, w1: int, w2: int) -> bool:
        return native(_box_ok, bi, pin(n, 1, 3), pin(w0, 0, 4), pin(w1, 0, 4), pin(w2, 0, 4))
    return h


for _bi in range(len(_BOXES)):
    _mk_box(_bi)


# --- composition: rendered tables (C+S) ------------------------------------------------------------------------------
from rich.table import Table  # noqa: E402
from vf import catalogue as cat  # noqa: E402

_CELLS = ["kabcde", "hello brave new world", "中文 wide 字", "two\nlines here", "", "x"]
_RATIOS = [None, (1, 1, 1), (1, 30, 2), (None, 2, 1)]
F_T7 = ["rich/table.py:Table.__rich_console__", "rich/table.py:Table._render", "rich/table.py:Table._calculate_column_widths",
        "rich/table.py:Table._get_cells", "rich/segment.py:Segment.set_shape", "rich/box.py:Box.get_row", "rich/_ratio.py:ratio_distribute",
        "rich/_ratio.py:ratio_reduce"]


def _nonspace(s):
    return "".join(ch for ch in s if not ch.isspace())


def _table_ok(ncol, nrow, hdr, pl, pr, expand, ri, w, shift) -> bool:
    ratios = _RATIOS[ri]
    t = Table(box=box_mod.ASCII, show_lines=True, show_header=hdr, padding=(0, pr, 0, pl), expand=expand)
    for ci in range(ncol):
        t.add_column("H%d" % ci, overflow="fold", ratio=(ratios[ci] if ratios else None))
    rows = []
    for r in range(nrow):
        row = [_CELLS[(r * 2 + ci + shift) % len(_CELLS)] for ci in range(ncol)]
        rows.append(row)
        t.add_row(*row)
    smin = (ncol + 1) + ncol * (pl + pr + 2)
    if w < smin:
        return True
    c = cat.console()
    lines = cat.render_lines(c, t, w)
    ws = cat.widths(lines)
    if len(set(ws)) > 1 or (ws and ws[0] > w) or (expand and ws and ws[0] != w):
        return False
    if not lines:
        return nrow == 0 and not hdr
    # column spans (in cells) from the vertical bars of the first content line: cell texts never contain '|'
    content = [l for l in lines if l.startswith("|") and not l.startswith("|-") and not l.startswith("|=")]
    if not content:
        return nrow == 0 and not hdr
    plus = []
    pos = 0
    for ch in content[0]:
        if ch == "|":
            plus.append(pos)
        pos += rwc(ch)
    if len(plus) != ncol + 1:
        return False
    # row groups are separated by border lines (they start with '+' or '|-')
    groups = []
    cur = []
    for line in lines[1:]:
        if line.startswith("+") or line.startswith("|-") or line.startswith("|="):
            groups.append(cur)
            cur = []
        else:
            cur.append(line)
    want_rows = ([["H%d" % ci for ci in range(ncol)]] if hdr else []) + rows
    groups = [g for g in groups if g] if len(groups) != len(want_rows) else groups
    if len(groups) != len(want_rows):
        return False
    from vf import known
    starved_wide = any(plus[ci + 1] - plus[ci] - 1 - pl - pr < 2 and any(rwc(ch) == 2 for wr in want_rows for ch in wr[ci])
                       for ci in range(ncol))
    if known.skip("C07-render", {"ratios": ri, "starved_wide": starved_wide, "expand": expand}):
        return True
    for g, wr in zip(groups, want_rows):
        for ci in range(ncol):
            a, b = plus[ci] + 1, plus[ci + 1]
            got = ""
            for line in g:
                # cell offsets: all characters here are single-width except the CJK ones; convert cell offsets to indices
                got += _nonspace(_cells_slice(line, a, b))
                if line[_index_of_cell(line, a) - 1] != "|" or _cells_slice(line, b, b + 1) != "|":
                    return False
            if got != _nonspace(wr[ci]):
                return False
    return True


def _index_of_cell(line, cell):
    pos = 0
    for i, ch in enumerate(line):
        if pos >= cell:
            return i
        pos += rwc(ch)
    return len(line)


def _cells_slice(line, a, b):
    return line[_index_of_cell(line, a):_index_of_cell(line, b)]


from vf.common import ref_width_concrete as rwc  # noqa: E402


def _mk_tables(ncol, ri, tiers, timeout, wmax):
    @symx("C07-render-%dcol-ratios%d-w%d" % (ncol, ri, wmax), tiers=tiers, timeout=timeout, kind="C+S", functions=F_T7,
          bounds="ASCII-box tables with %d fold-overflow columns, ratio vector %r x 0..%d rows x header on/off x padding left/right "
                 "0..2 x expand x cell contents rotated through %r x available width from the structural minimum to %d "
                 "(solver-enumerated, native): all lines equally wide (== width when expanding); rows in insertion order on "
                 "disjoint line ranges; every non-whitespace character of every cell (and header) appears, in order, inside its "
                 "column's span located from the border" % (ncol, _RATIOS[ri], 3 if wmax > 40 else 2, _CELLS, wmax),
          outside="more than 3 columns / 3 rows; boxes other than ASCII for the content clause (border widths for every box: "
                  "C07-box-rows-*)")
    def h(e):
        nrow = int(e.mk("rows", 0, 3 if wmax > 40 else 2))
        hdr = bool(e.mkbool("header"))
        pl, pr = int(e.mk("pad_left", 0, 2)), int(e.mk("pad_right", 0, 2))
        expand = bool(e.mkbool("expand"))
        shift = int(e.mk("content_shift", 0, 2 if wmax > 40 else 1))
        w = int(e.mk("width", 1, wmax))
        return _table_ok(ncol, nrow, hdr, pl, pr, expand, ri, w, shift)
    return h


for _n in (1, 2, 3):
    for _ri in range(len(_RATIOS)):
        if _n == 1 and _ri > 1:
            continue
        _mk_tables(_n, _ri, ("quick",), 900, 16 + 4 * _n)
        _mk_tables(_n, _ri, ("thorough",), 3400, 60)


@symx("C07-render-leading-minwidth", timeout=900, kind="C+S", functions=F_T7,
      bounds="ASCII-box tables, 1..3 columns x 1..3 rows x leading 0..3 x show_lines x show_edge x table min_width in {none, 10, 30} x expand x "
             "available width from the structural minimum to 40 (solver-enumerated, native): every line equally wide, never wider "
             "than available, exactly the available width when expanding; with leading the rows are separated by that many blank "
             "lines")
def c07_leading(e):
    ncol = int(e.mk("columns", 1, 3))
    nrow = int(e.mk("rows", 1, 3))
    leading = int(e.mk("leading", 0, 3))
    show_lines = bool(e.mkbool("show_lines"))
    mw = [None, 10, 30][int(e.mk("min_width", 0, 2))]
    expand = bool(e.mkbool("expand"))
    edge = bool(e.mkbool("show_edge"))
    w = int(e.mk("width", 1, 40))
    if w < (ncol + 1) + ncol * 6:       # room for the unwrapped cell text 'rXcY' plus padding: rows stay one line high
        return True
    t = Table(box=box_mod.ASCII, leading=leading, show_lines=show_lines, min_width=mw, expand=expand, show_edge=edge)
    for ci in range(ncol):
        t.add_column("H%d" % ci)
    for r in range(nrow):
        t.add_row(*["r%dc%d" % (r, ci) for ci in range(ncol)])
    lines = cat.render_lines(cat.console(), t, w)
    ws = cat.widths(lines)
    if len(set(ws)) != 1 or ws[0] > w or (expand and ws[0] != w):
        return False
    if mw is not None and ws[0] < min(mw, w):
        return False
    # rows appear in order, each on lines of its own, separated by `leading` blank rows (when no row lines are drawn)
    import re
    body = [l for l in lines if re.search(r"r[0-9]c0", l)]
    if [re.search(r"r[0-9]c0", l).group(0) for l in body] != ["r%dc0" % r for r in range(nrow)]:
        return False
    # column dividers line up on every line that has them
    cols = [[i for i, ch in enumerate(l) if ch == "|"] for l in lines if "-" not in l and "+" not in l and "=" not in l]
    cols = [c for c in cols if c]
    if any(c != cols[0] for c in cols):
        return False
    if leading and not show_lines:
        idx = [lines.index(l) for l in body]
        if any(b - a != leading + 1 for a, b in zip(idx, idx[1:])):
            return False
    return True


_RBOXES = [None, box_mod.ASCII, box_mod.SIMPLE, box_mod.MINIMAL, box_mod.HORIZONTALS, box_mod.ROUNDED]


@symx("C07-render-boxes-edges", timeout=900, kind="C+S", functions=F_T7 + ["rich/table.py:Table._extra_width"],
      bounds="tables with box in {None, ASCII, SIMPLE, MINIMAL, HORIZONTALS, ROUNDED} x show_edge x show_header x expand / fixed "
             "table width x 1..3 columns x pad_edge x available width from the structural minimum to 40: all lines equally wide, never "
             "wider than available, exactly the available width (or the fixed width) when expanding")
def c07_boxes(e):
    bx = _RBOXES[int(e.mk("box", 0, len(_RBOXES) - 1))]
    edge = bool(e.mkbool("show_edge"))
    hdr = bool(e.mkbool("show_header"))
    mode = int(e.mk("mode", 0, 2))        # 0 plain, 1 expand, 2 width=
    ncol = int(e.mk("columns", 1, 3))
    pad_edge = bool(e.mkbool("pad_edge"))
    w = int(e.mk("width", 1, 40))
    if w < (ncol + 1) + ncol * 6:
        return True
    fixed = w - 2 if mode == 2 else None
    t = Table(box=bx, show_edge=edge, show_header=hdr, expand=(mode == 1), width=fixed, pad_edge=pad_edge)
    for ci in range(ncol):
        t.add_column("H%d" % ci)
    t.add_row(*["r0c%d" % ci for ci in range(ncol)])
    t.add_row(*["r1c%d" % ci for ci in range(ncol)])
    lines = [l for l in cat.render_lines(cat.console(), t, w)]
    ws = cat.widths(lines)
    if not ws or len(set(ws)) != 1 or ws[0] > w:
        return False
    if mode == 1 and ws[0] != w:
        return False
    if mode == 2 and ws[0] != fixed:
        return False
    return True


# --- the same table rendered inside other renderables (inherited options must not leak into its cells) ----------------------
from rich.align import Align  # noqa: E402
from rich.padding import Padding  # noqa: E402
from rich.panel import Panel  # noqa: E402
from rich.table import Table as _Table  # noqa: E402

_NEST_CELLS = [("abcdefghijklmnop qrs", "x1"), ("tuv", "a longer second cell")]


def _nest_inner(fixed):
    t = _Table(box=box_mod.ASCII, show_header=False, show_lines=True, padding=0, pad_edge=False)
    t.add_column(overflow="fold", width=6 if fixed else None)
    t.add_column(overflow="fold", width=8 if fixed else None)
    for row in _NEST_CELLS:
        t.add_row(*row)
    return t


def _nest_holder(kind, inner):
    if kind in (0, 1, 2):
        outer = _Table.grid() if kind < 2 else _Table(box=None, show_header=False, padding=0)
        outer.add_column(no_wrap=(kind != 1), justify="left" if kind < 2 else "right")
        outer.add_column()
        outer.add_row(inner, " <- nested")
        return outer
    if kind == 3:
        return Panel(inner)
    if kind == 4:
        return Padding(Align.center(inner), (0, 2))
    grid = _Table.grid()
    grid.add_column(no_wrap=True, overflow="ellipsis")
    grid.add_row(Panel(inner, expand=False))
    return grid


@symx("C07-render-nested-contexts", timeout=900, kind="C+S", functions=F_T7 + ["rich/console.py:ConsoleOptions.update"],
      bounds="a 2x2 ASCII-box table with two fold columns (fixed widths 6/8 or free) rendered inside {grid column with no_wrap, grid "
             "column without, right-justified no_wrap column of a box-less table, Panel, Padding(Align.center), no_wrap+ellipsis "
             "grid column holding a Panel} at outer widths 24..60 (solver-enumerated, native): the lines of the inner table cut "
             "out of the output are exactly the lines the same table renders on its own at that width - options of the "
             "enclosing context (no_wrap, overflow, justify) do not reach its cells")
def c07_nested(e):
    fixed = bool(e.mkbool("fixed_widths"))
    kind = int(e.mk("holder", 0, 5))
    w = int(e.mk("width", 24, 60))
    c = cat.console()
    lines = cat.render_lines(c, _nest_holder(kind, _nest_inner(fixed)), w)
    inner_lines = []
    for line in lines:
        idx = [i for i, ch in enumerate(line) if ch in "+|"]
        if idx:
            inner_lines.append(line[idx[0]:idx[-1] + 1])
    if not inner_lines:
        return False
    wi = len(inner_lines[0])
    alone = cat.render_lines(c, _nest_inner(fixed), wi)
    return inner_lines == [l.rstrip() for l in alone]


# --- a render (or measure) pass that raised leaves nothing behind (P) ------------------------------------------------------------
from rich.text import Text as _Text7  # noqa: E402


class _Boom7(Exception):
    pass


class _RaisesAt:
    """A cell renderable that raises on its n-th render and is an ordinary text otherwise."""

    def __init__(self, at):
        self.at, self.count = at, 0

    def __rich_console__(self, console, options):
        self.count += 1
        if self.count == self.at:
            raise _Boom7()
        yield _Text7("cell")


@symx("C07-render-after-failed-render", timeout=600, kind="P", functions=F_T7,
      bounds="a 2-column ASCII-box table with 1..2 rows, one cell of which raises on its n-th render (n in 1..3: during the first "
             "render, a later render, or never), rendered (and optionally measured) 1..2 times with the exception caught, then 0..2 rows "
             "are added and the table is rendered again at width 12..30: the lines are those of a freshly built table with the same "
             "rows - every row present, in order",
      outside="other fault points inside Table; more rows")
def c07_after_failed_render(e):
    from rich.measure import Measurement
    at = int(e.mk("raise_at", 1, 3))
    rows0 = int(e.mk("rows_before", 1, 2))
    added = int(e.mk("rows_added", 0, 2))
    passes = int(e.mk("passes", 1, 2))
    measure = bool(e.mkbool("measure_too"))
    w = int(e.mk("width", 12, 30))
    c = cat.console()

    def build(n_rows, cell):
        t = Table(box=box_mod.ASCII)
        t.add_column("k")
        t.add_column("v")
        for r in range(n_rows):
            t.add_row("key%d" % r, cell if r == 0 else "val%d" % r)
        return t
    t = build(rows0, _RaisesAt(at))
    for _ in range(passes):
        try:
            if measure:
                Measurement.get(c, t, w)
            cat.render_lines(c, t, w)
        except _Boom7:
            pass
    for r in range(rows0, rows0 + added):
        t.add_row("key%d" % r, "val%d" % r)
    t.columns[1]._cells[0] = _Text7("cell")
    got = cat.render_lines(c, t, w)
    want = cat.render_lines(c, build(rows0 + added, _Text7("cell")), w)
    return got == want
