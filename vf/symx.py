"""symx - a small dynamic symbolic execution engine over z3 (DESIGN.md 2.2).

The *real* function objects of /repo/rich are called with proxy values:

  SymInt   z3 Int (default) or BitVec term
  SymBool  z3 Bool; ``__bool__`` asks the engine to decide the branch
  SymRat   exact rational n/d produced by int/int (round/ceil/floor/int exact)
  SymFloat z3 Float64 term, RNE (only in FP mode, C18)

The engine re-executes the harness once per feasible path (depth-first over the
recorded decisions).  At the end of each path the returned SymBool is checked
under the path condition; ``sat`` yields a model.  ``unknown`` is never
success.  While the engine runs ``builtins.min/max`` are replaced by versions
that build If-terms for symbolic arguments (S3).
"""
import builtins
import math
import time

import z3


class Infeasible(Exception):
    pass


class Unknown(Exception):
    pass


class Engine:
    def __init__(self, bv=None, fp=False, timeout_s=None, query_timeout_ms=60000, lazy=False, shard=None):
        self.shard = shard   # (i, n): in lazy mode only paths with ordinal % n == i are sent to the solver
        self.skipped = 0
        self.lazy = lazy     # lazy: do not test branch feasibility; infeasible paths die at the final query (loop-free code only)
        self.bv = bv
        self.fp = fp
        self.solver = z3.Solver()
        self.solver.set("timeout", query_timeout_ms)
        self.nq = 0
        self.tq = 0.0
        self.paths = 0
        self.concrete = None  # dict name->value in replay mode
        self.deadline = (time.time() + timeout_s) if timeout_s else None
        self.vars = {}
        self.samples = []
        self.concretizations = 0
        self.memo = {}       # harness-level cache that survives across paths (e.g. reference terms)
        self.pc_index = {}
        self._keep = []

    # -- variables ---------------------------------------------------------
    def mk(self, name, lo, hi):
        """A fresh symbolic integer with lo <= v <= hi (part of the precondition)."""
        if self.concrete is not None:
            v = self.concrete.get(name, lo)
            if not (lo <= v <= hi):
                raise Infeasible()
            return v
        if self.bv and lo >= 0:
            # narrow variable, zero-extended: keeps the SAT encoding small (domain implicit in the width)
            k = max(1, int(hi).bit_length())
            raw = z3.BitVec(name, k)
            self.vars[name] = raw
            v = z3.ZeroExt(self.bv - k, raw) if k < self.bv else raw
            if lo > 0:
                self.pre.append(z3.UGE(raw, z3.BitVecVal(lo, k)))
            if hi != (1 << k) - 1:
                self.pre.append(z3.ULE(raw, z3.BitVecVal(hi, k)))
            si = SymInt(self, v)
            if hi - lo < 1024:
                si.dom = (lo, hi, raw, k)
            return si
        v = z3.BitVec(name, self.bv) if self.bv else z3.Int(name)
        self.vars[name] = v
        self.pre.append(z3.And(v >= lo, v <= hi))
        return SymInt(self, v)

    def mkbool(self, name):
        if self.concrete is not None:
            return bool(self.concrete.get(name, False))
        v = z3.Bool(name)
        self.vars[name] = v
        return SymBool(self, v)

    def assume(self, cond):
        """Add a precondition."""
        if isinstance(cond, SymBool):
            self.pre.append(cond.z)
        elif not cond:
            raise Infeasible()

    def val(self, c):
        return z3.BitVecVal(c, self.bv) if self.bv else z3.IntVal(c)

    # -- solver ------------------------------------------------------------
    def check(self, *extra):
        if self.deadline and time.time() > self.deadline:
            raise TimeoutError("symx deadline")
        t = time.time()
        self.solver.push()
        for e in self.pre + self.pc + list(extra):
            self.solver.add(e)
        r = self.solver.check()
        m = self.solver.model() if r == z3.sat else None
        self.solver.pop()
        self.nq += 1
        self.tq += time.time() - t
        if r == z3.unknown:
            raise Unknown(self.solver.reason_unknown())
        return r == z3.sat, m

    def branch(self, cond):
        cond = z3.simplify(cond)
        if z3.is_true(cond):
            return True
        if z3.is_false(cond):
            return False
        if self.concrete is not None:
            raise RuntimeError("symbolic condition in concrete replay: %s" % cond)
        known = self.pc_index.get(cond.get_id())
        if known is not None:
            return known
        if self.pos < len(self.dec):
            take = self.dec[self.pos]
            assert isinstance(take, bool), "non-deterministic harness"
        elif self.lazy:
            self.work.append(self.dec[: self.pos] + [False])
            take = True
            self.dec.append(take)
        else:
            can_t, _ = self.check(cond)
            can_f, _ = self.check(z3.Not(cond))
            if can_t and can_f:
                self.work.append(self.dec[: self.pos] + [False])
                take = True
            elif can_t:
                take = True
            elif can_f:
                take = False
            else:
                raise Infeasible()
            self.dec.append(take)
        self.pos += 1
        self.pc.append(cond if take else z3.Not(cond))
        self.pc_index[cond.get_id()] = take
        self._keep.append(cond)
        return take

    def concretize(self, z):
        """Enumerate the feasible values of integer term z (kind P)."""
        z = z3.simplify(z)
        if z3.is_int_value(z):
            return z.as_long()
        if z3.is_bv_value(z):
            return z.as_signed_long()
        excl = []
        if self.pos < len(self.dec):
            d = self.dec[self.pos]
            assert isinstance(d, tuple), "non-deterministic harness"
            if d[0] == "val":
                self.pos += 1
                self.pc.append(z == self.val(d[1]))
                return d[1]
            excl = list(d[1])
            self.dec = self.dec[: self.pos]
        ok, m = self.check(*[z != self.val(x) for x in excl])
        if not ok:
            raise Infeasible()
        mv = m.eval(z, model_completion=True)
        v = mv.as_signed_long() if self.bv else mv.as_long()
        self.work.append(self.dec[: self.pos] + [("cont", excl + [v])])
        self.dec.append(("val", v))
        self.pos += 1
        self.pc.append(z == self.val(v))
        self.concretizations += 1
        return v

    # -- exploration -------------------------------------------------------
    def explore(self, fn, expect_exc=()):
        """Run fn(engine) on every feasible path.

        Returns (status, model) with status in {"proved","refuted","unknown","timeout"}.
        fn returns a SymBool / bool (the assertion).  An exception other than
        Infeasible raised by fn on a feasible path is a violation too.
        """
        self.work = [[]]
        self.paths = 0
        with patched_builtins():
            while self.work:
                self.dec = self.work.pop()
                self.pos = 0
                self.pc = []
                self.pre = []
                self.pc_index = {}
                self._keep = []
                exc = None
                try:
                    post = fn(self)
                except Infeasible:
                    continue
                except Unknown as u:
                    return "unknown", str(u)
                except TimeoutError:
                    return "timeout", None
                except expect_exc:
                    post = True
                except Exception as e:  # noqa
                    exc = e
                    post = False
                self.paths += 1
                if self.shard is not None and self.lazy and (self.paths - 1) % self.shard[1] != self.shard[0]:
                    self.skipped += 1
                    continue
                if isinstance(post, SymBool):
                    post = post.z
                else:
                    post = z3.BoolVal(bool(post))
                try:
                    bad, m = self.check(z3.Not(post))
                except Unknown as u:
                    return "unknown", str(u)
                except TimeoutError:
                    return "timeout", None
                if len(self.samples) < 3:
                    self.samples.append({"path": self.paths, "decisions": repr(self.dec)[:200],
                                         "pc_size": len(self.pc)})
                if bad:
                    model = {}
                    for name, v in self.vars.items():
                        mv = m.eval(v, model_completion=True)
                        if z3.is_bool(mv):
                            model[name] = z3.is_true(mv)
                        elif self.bv:
                            model[name] = mv.as_long() if mv.size() < self.bv else mv.as_signed_long()
                        else:
                            model[name] = mv.as_long()
                    if exc is not None:
                        model["__exc__"] = "%s: %s" % (type(exc).__name__, exc)
                    return "refuted", model
        return "proved", None

    def replay(self, fn, model, expect_exc=()):
        """Run fn with plain Python values.  Returns (reproduces, detail)."""
        self.concrete = {k: v for k, v in model.items() if not k.startswith("__")}
        self.pre = []
        self.pc = []
        try:
            r = fn(self)
        except Infeasible:
            return False, "precondition not met"
        except expect_exc:
            return False, "expected exception"
        except Exception as e:  # noqa
            return True, "%s: %s" % (type(e).__name__, e)
        finally:
            self.concrete = None
        return (not bool(r)), "assertion evaluated to %r" % (r,)


# ---------------------------------------------------------------------------
def _z(e, x):
    if isinstance(x, SymInt):
        return x.z
    if isinstance(x, SymBool):
        return z3.If(x.z, e.val(1), e.val(0))
    if isinstance(x, bool):
        x = int(x)
    if isinstance(x, int):
        return e.val(x)
    return NotImplemented


def _zb(x):
    if isinstance(x, SymBool):
        return x.z
    if isinstance(x, SymInt):
        return x.z != x.e.val(0)
    return z3.BoolVal(bool(x))


class SymBool:
    def __init__(self, e, z):
        self.e, self.z = e, z

    def __bool__(self):
        return self.e.branch(self.z)

    def __and__(self, o):
        return SymBool(self.e, z3.And(self.z, _zb(o)))

    __rand__ = __and__

    def __or__(self, o):
        return SymBool(self.e, z3.Or(self.z, _zb(o)))

    __ror__ = __or__

    def __invert__(self):
        return SymBool(self.e, z3.Not(self.z))

    def implies(self, o):
        return SymBool(self.e, z3.Implies(self.z, _zb(o)))

    def __eq__(self, o):
        return SymBool(self.e, self.z == _zb(o))

    def __ne__(self, o):
        return SymBool(self.e, self.z != _zb(o))

    def __hash__(self):
        return id(self)

    def __int__(self):
        return 1 if self.e.branch(self.z) else 0

    def __index__(self):
        return int(self)

    def __add__(self, o):
        return SymInt(self.e, _z(self.e, self)) + o

    __radd__ = __add__


def sym_not(x):
    if isinstance(x, SymBool):
        return ~x
    return not x


def sym_and(*xs):
    e = next((x.e for x in xs if isinstance(x, (SymBool, SymInt))), None)
    if e is None:
        return all(xs)
    return SymBool(e, z3.And(*[_zb(x) for x in xs]))


def sym_or(*xs):
    e = next((x.e for x in xs if isinstance(x, (SymBool, SymInt))), None)
    if e is None:
        return any(xs)
    return SymBool(e, z3.Or(*[_zb(x) for x in xs]))


def sym_implies(a, b):
    return sym_or(sym_not(a), b)


def sym_ite(c, a, b):
    """If-term over ints (no forking)."""
    if not isinstance(c, SymBool):
        return a if c else b
    e = c.e
    return SymInt(e, z3.If(c.z, _z(e, a), _z(e, b)))


def fdiv(e, a, b):
    """Python floor division on terms (b != 0 assumed by caller)."""
    if e.bv:
        q = a / b
        r = z3.SRem(a, b)
        return z3.If(z3.And(r != 0, (r < 0) != (b < 0)), q - 1, q)
    # z3 Int division: a div b with a = b*q + r, 0 <= r < |b|  (euclidean)
    # floor(a/b) == a div b when b > 0; when b < 0 floor(a/b) == (-a) div (-b)
    return z3.If(b > 0, a / b, (-a) / (-b))


class SymInt:
    dom = None   # (lo, hi, raw variable) for variables of small domain; lets float division by a constant be table-ised

    def __init__(self, e, z):
        self.e, self.z = e, z

    def _bin(self, o, f, rat=None):
        if isinstance(o, SymRat):
            return NotImplemented
        if isinstance(o, float):
            if rat is not None and not self.e.fp and o == o and o not in (float("inf"), float("-inf")):
                # exact-rational mode: a concrete float operand is the rational it denotes
                return rat(SymRat.lift(self.e, self), SymRat.lift(self.e, o))
            return NotImplemented
        oz = _z(self.e, o)
        if oz is NotImplemented:
            return NotImplemented
        return SymInt(self.e, f(self.z, oz))

    def _cmp(self, o, f):
        if isinstance(o, SymRat):
            return NotImplemented
        oz = _z(self.e, o)
        if oz is NotImplemented:
            return NotImplemented
        return SymBool(self.e, f(self.z, oz))

    def __add__(s, o):
        return s._bin(o, lambda a, b: a + b, lambda a, b: a + b)

    __radd__ = __add__

    def __sub__(s, o):
        return s._bin(o, lambda a, b: a - b, lambda a, b: a - b)

    def __rsub__(s, o):
        return s._bin(o, lambda a, b: b - a, lambda a, b: b - a)

    def __mul__(s, o):
        return s._bin(o, lambda a, b: a * b, lambda a, b: a * b)

    __rmul__ = __mul__

    def __neg__(s):
        return SymInt(s.e, -s.z)

    def __pos__(s):
        return s

    def __abs__(s):
        return SymInt(s.e, z3.If(s.z < 0, -s.z, s.z))

    def _nz(s, oz):
        # division by zero must raise like Python does
        if SymBool(s.e, oz == s.e.val(0)):
            raise ZeroDivisionError("division by zero")

    def __floordiv__(s, o):
        oz = _z(s.e, o)
        if oz is NotImplemented:
            return NotImplemented
        s._nz(oz)
        return SymInt(s.e, fdiv(s.e, s.z, oz))

    def __rfloordiv__(s, o):
        oz = _z(s.e, o)
        if oz is NotImplemented:
            return NotImplemented
        s._nz(s.z)
        return SymInt(s.e, fdiv(s.e, oz, s.z))

    def __mod__(s, o):
        oz = _z(s.e, o)
        if oz is NotImplemented:
            return NotImplemented
        s._nz(oz)
        return SymInt(s.e, s.z - oz * fdiv(s.e, s.z, oz))

    def __rmod__(s, o):
        oz = _z(s.e, o)
        if oz is NotImplemented:
            return NotImplemented
        s._nz(s.z)
        return SymInt(s.e, oz - s.z * fdiv(s.e, oz, s.z))

    def __divmod__(s, o):
        return (s // o, s % o)

    def __rshift__(s, o):
        if isinstance(o, int) and not s.e.bv:
            return SymInt(s.e, fdiv(s.e, s.z, s.e.val(1 << o)))
        if isinstance(o, int):
            return SymInt(s.e, s.z >> o)
        return NotImplemented

    def __lshift__(s, o):
        if isinstance(o, int):
            return SymInt(s.e, s.z * s.e.val(1 << o))
        return NotImplemented

    def __and__(s, o):
        if s.e.bv:
            return s._bin(o, lambda a, b: a & b)
        return NotImplemented

    __rand__ = __and__

    def __or__(s, o):
        if s.e.bv:
            return s._bin(o, lambda a, b: a | b)
        return NotImplemented

    __ror__ = __or__

    def __xor__(s, o):
        if s.e.bv:
            return s._bin(o, lambda a, b: a ^ b)
        return NotImplemented

    __rxor__ = __xor__

    def __invert__(s):
        if s.e.bv:
            return SymInt(s.e, ~s.z)
        return SymInt(s.e, -s.z - 1)

    def __truediv__(s, o):
        if isinstance(o, SymRat):
            return SymRat(s.e, s.z, s.e.val(1)) / o
        if isinstance(o, float):
            if s.e.fp:
                return SymFloat.from_int(s) / o
            if o == int(o):
                o = int(o)
            else:
                return NotImplemented
        oz = _z(s.e, o)
        if oz is NotImplemented:
            return NotImplemented
        s._nz(oz)
        return SymRat(s.e, s.z, oz)._norm()

    def __rtruediv__(s, o):
        oz = _z(s.e, o)
        if oz is NotImplemented:
            return NotImplemented
        s._nz(s.z)
        return SymRat(s.e, oz, s.z)._norm()

    def __lt__(s, o):
        return s._cmp(o, lambda a, b: a < b)

    def __le__(s, o):
        return s._cmp(o, lambda a, b: a <= b)

    def __gt__(s, o):
        return s._cmp(o, lambda a, b: a > b)

    def __ge__(s, o):
        return s._cmp(o, lambda a, b: a >= b)

    def __eq__(s, o):
        r = s._cmp(o, lambda a, b: a == b)
        return False if r is NotImplemented else r

    def __ne__(s, o):
        r = s._cmp(o, lambda a, b: a != b)
        return True if r is NotImplemented else r

    def __bool__(s):
        return s.e.branch(s.z != s.e.val(0))

    def __hash__(s):
        return id(s)

    def __index__(s):
        return s.e.concretize(s.z)

    def __int__(s):
        return s.e.concretize(s.z)

    def __round__(s, nd=None):
        return s

    def __ceil__(s):
        return s

    def __floor__(s):
        return s

    def __trunc__(s):
        return s

    def __float__(s):
        return float(s.e.concretize(s.z))

    def __repr__(s):
        return "SymInt(%s)" % (z3.simplify(s.z),)

    __str__ = None  # set below

    def __format__(s, spec):
        return format(s.e.concretize(s.z), spec)


def _symint_str(s):
    return str(s.e.concretize(s.z))


SymInt.__str__ = _symint_str


class SymRat:
    """Exact rational n/d with d > 0 (normalised sign)."""

    def __init__(s, e, n, d):
        s.e, s.n, s.d = e, n, d

    def _norm(s):
        # make denominator positive (branch-free)
        neg = s.d < 0
        return SymRat(s.e, z3.If(neg, -s.n, s.n), z3.If(neg, -s.d, s.d))

    @staticmethod
    def lift(e, x):
        if isinstance(x, SymRat):
            return x
        z = _z(e, x)
        if z is NotImplemented:
            if isinstance(x, float) and x == int(x):
                return SymRat(e, e.val(int(x)), e.val(1))
            if isinstance(x, float):
                from fractions import Fraction
                f = Fraction(x)
                return SymRat(e, e.val(f.numerator), e.val(f.denominator))
            return None
        return SymRat(e, z, e.val(1))

    def _bin(s, o, f):
        o = SymRat.lift(s.e, o)
        if o is None:
            return NotImplemented
        return f(s, o)

    def __add__(s, o):
        return s._bin(o, lambda a, b: SymRat(s.e, a.n * b.d + b.n * a.d, a.d * b.d))

    __radd__ = __add__

    def __sub__(s, o):
        return s._bin(o, lambda a, b: SymRat(s.e, a.n * b.d - b.n * a.d, a.d * b.d))

    def __rsub__(s, o):
        return s._bin(o, lambda a, b: SymRat(s.e, b.n * a.d - a.n * b.d, a.d * b.d))

    def __mul__(s, o):
        return s._bin(o, lambda a, b: SymRat(s.e, a.n * b.n, a.d * b.d))

    __rmul__ = __mul__

    def __truediv__(s, o):
        def f(a, b):
            if SymBool(s.e, b.n == s.e.val(0)):
                raise ZeroDivisionError("division by zero")
            return SymRat(s.e, a.n * b.d, a.d * b.n)._norm()
        return s._bin(o, f)

    def __rtruediv__(s, o):
        o = SymRat.lift(s.e, o)
        if o is None:
            return NotImplemented
        return o / s

    def __neg__(s):
        return SymRat(s.e, -s.n, s.d)

    def _cmp(s, o, f):
        o = SymRat.lift(s.e, o)
        if o is None:
            return NotImplemented
        return SymBool(s.e, f(s.n * o.d, o.n * s.d))

    def __lt__(s, o):
        return s._cmp(o, lambda a, b: a < b)

    def __le__(s, o):
        return s._cmp(o, lambda a, b: a <= b)

    def __gt__(s, o):
        return s._cmp(o, lambda a, b: a > b)

    def __ge__(s, o):
        return s._cmp(o, lambda a, b: a >= b)

    def __eq__(s, o):
        r = s._cmp(o, lambda a, b: a == b)
        return False if r is NotImplemented else r

    def __ne__(s, o):
        r = s._cmp(o, lambda a, b: a != b)
        return True if r is NotImplemented else r

    def __hash__(s):
        return id(s)

    def __bool__(s):
        return s.e.branch(s.n != s.e.val(0))

    def __floor__(s):
        return SymInt(s.e, fdiv(s.e, s.n, s.d))

    def __ceil__(s):
        return SymInt(s.e, -fdiv(s.e, -s.n, s.d))

    def __trunc__(s):
        e = s.e
        return SymInt(e, z3.If(s.n >= 0, fdiv(e, s.n, s.d), -fdiv(e, -s.n, s.d)))

    def __int__(s):
        return s.e.concretize(s.__trunc__().z)

    def __round__(s, nd=None):
        e = s.e
        n, d = s.n, s.d
        q = fdiv(e, n, d)
        r = n - q * d
        twice = 2 * r
        odd = (q - 2 * fdiv(e, q, e.val(2))) == 1
        up = z3.Or(twice > d, z3.And(twice == d, odd))
        return SymInt(e, z3.If(up, q + 1, q))

    def __repr__(s):
        return "SymRat(%s/%s)" % (z3.simplify(s.n), z3.simplify(s.d))


# ---------------------------------------------------------------------------
# IEEE-754 double mode (C18)
_RNE = None


def _rne():
    global _RNE
    if _RNE is None:
        _RNE = z3.RNE()
    return _RNE


def _table(raw, k, lo, hi, f):
    """Balanced If-tree mapping the k-bit variable raw (lo..hi) to the Float64 constants f(v)."""
    def build(a, b):
        if a == b:
            return z3.FPVal(f(a), z3.Float64())
        mid = (a + b) // 2
        return z3.If(z3.ULE(raw, z3.BitVecVal(mid, k)), build(a, mid), build(mid + 1, b))
    return build(lo, hi)


class SymFloat:
    src = None   # (lo, hi, raw, bits) when this float is the exact conversion of a small-domain integer variable

    def __init__(s, e, z):
        s.e, s.z = e, z

    @staticmethod
    def from_int(i):
        e = i.e
        if e.bv:
            f = SymFloat(e, z3.fpSignedToFP(_rne(), i.z, z3.Float64()))
        else:
            f = SymFloat(e, z3.fpToFP(_rne(), z3.ToReal(i.z), z3.Float64()))
        f.src = i.dom
        return f

    @staticmethod
    def lift(e, x):
        if isinstance(x, SymFloat):
            return x
        if isinstance(x, SymInt):
            return SymFloat.from_int(x)
        if isinstance(x, (int, float)) and not isinstance(x, bool):
            return SymFloat(e, z3.FPVal(float(x), z3.Float64()))
        return None

    def _bin(s, o, f):
        o = SymFloat.lift(s.e, o)
        if o is None:
            return NotImplemented
        return SymFloat(s.e, f(s.z, o.z))

    def _rbin(s, o, f):
        o = SymFloat.lift(s.e, o)
        if o is None:
            return NotImplemented
        return SymFloat(s.e, f(o.z, s.z))

    def __add__(s, o):
        return s._bin(o, lambda a, b: z3.fpAdd(_rne(), a, b))

    __radd__ = __add__

    def __sub__(s, o):
        return s._bin(o, lambda a, b: z3.fpSub(_rne(), a, b))

    def __rsub__(s, o):
        return s._rbin(o, lambda a, b: z3.fpSub(_rne(), a, b))

    def __mul__(s, o):
        return s._bin(o, lambda a, b: z3.fpMul(_rne(), a, b))

    __rmul__ = __mul__

    def __truediv__(s, o):
        if isinstance(o, (int, float)) and not isinstance(o, bool):
            of = float(o)
            m, ex = math.frexp(of)
            if of != 0.0 and abs(m) == 0.5 and abs(ex) < 500:
                # division by a power of two == multiplication by its (exact) reciprocal, bit for bit
                return SymFloat(s.e, z3.fpMul(_rne(), s.z, z3.FPVal(1.0 / of, z3.Float64())))
            if s.src is not None and of != 0.0:
                # small-domain integer / constant: table of CPython's own quotients (exact by construction)
                lo, hi, raw, k = s.src
                return SymFloat(s.e, _table(raw, k, lo, hi, lambda v: float(v) / of))
        return s._bin(o, lambda a, b: z3.fpDiv(_rne(), a, b))

    def __rtruediv__(s, o):
        return s._rbin(o, lambda a, b: z3.fpDiv(_rne(), a, b))

    def __mod__(s, o):
        # Python float % for positive modulus 1.0 only (colorsys): x - floor(x/1.0)*1.0
        if isinstance(o, (int, float)) and float(o) == 1.0:
            fl = z3.fpRoundToIntegral(z3.RTN(), s.z)
            return SymFloat(s.e, z3.fpSub(_rne(), s.z, fl))
        return NotImplemented

    def __neg__(s):
        return SymFloat(s.e, z3.fpNeg(s.z))

    def _cmp(s, o, f):
        o = SymFloat.lift(s.e, o)
        if o is None:
            return NotImplemented
        return SymBool(s.e, f(s.z, o.z))

    def __lt__(s, o):
        return s._cmp(o, z3.fpLT)

    def __le__(s, o):
        return s._cmp(o, z3.fpLEQ)

    def __gt__(s, o):
        return s._cmp(o, z3.fpGT)

    def __ge__(s, o):
        return s._cmp(o, z3.fpGEQ)

    def __eq__(s, o):
        r = s._cmp(o, z3.fpEQ)
        return False if r is NotImplemented else r

    def __ne__(s, o):
        r = s._cmp(o, z3.fpNEQ)
        return True if r is NotImplemented else r

    def __hash__(s):
        return id(s)

    def __round__(s, nd=None):
        # Python round(float) -> int, half to even == roundToIntegral(RNE)
        r = z3.fpRoundToIntegral(_rne(), s.z)
        if s.e.bv:
            return SymInt(s.e, z3.fpToSBV(z3.RTZ(), r, z3.BitVecSort(s.e.bv)))
        return SymInt(s.e, z3.ToInt(z3.fpToReal(r)))

    def __repr__(s):
        return "SymFloat(%s)" % (s.z,)


# ---------------------------------------------------------------------------
# builtins replaced while exploring (S3)
_min, _max, _abs = builtins.min, builtins.max, builtins.abs
_SYM = (SymInt, SymRat, SymFloat)


def _items(args):
    if len(args) == 1:
        return list(args[0])
    return list(args)


def _merge(args, kw, less):
    """min/max with If-terms. `less(k, cur)` true when k must replace cur."""
    items = _items(args)
    if not items:
        return "native", items
    key = kw.get("key")
    keys = [key(x) for x in items] if key is not None else items
    if not any(isinstance(k, _SYM) for k in keys):
        return "native-keys", (items, keys)
    e = next(k.e for k in keys if isinstance(k, _SYM))
    if all(isinstance(k, (SymInt, int)) and not isinstance(k, bool) or isinstance(k, bool) for k in keys):
        kz = [_z(e, k) for k in keys]
        if key is None:
            cur = kz[0]
            for k in kz[1:]:
                cur = z3.If(less(k, cur), k, cur)
            return "done", SymInt(e, cur)
        if all(isinstance(x, int) for x in items):
            cur, curi = kz[0], e.val(items[0])
            for k, it in zip(kz[1:], items[1:]):
                c = less(k, cur)
                cur = z3.If(c, k, cur)
                curi = z3.If(c, e.val(it), curi)
            return "done", SymInt(e, curi)
    if all(isinstance(k, (SymRat, SymInt, int)) and not isinstance(k, bool) for k in keys) and any(isinstance(k, SymRat) for k in keys) \
            and (key is None or all(isinstance(x, int) for x in items)):
        # exact rationals with positive denominators: compare by cross-multiplication, merge into If-terms
        rs = [SymRat.lift(e, k) for k in keys]

        def rless(a, b):
            return (a.n * b.d) < (b.n * a.d)
        want_less = less(e.val(0), e.val(1)) is not None and z3.is_true(z3.simplify(less(e.val(0), e.val(1))))
        cur = rs[0]
        curi = e.val(items[0]) if key is not None else None
        for k, it in zip(rs[1:], items[1:]):
            c = rless(k, cur) if want_less else rless(cur, k)
            cur = SymRat(e, z3.If(c, k.n, cur.n), z3.If(c, k.d, cur.d))
            if key is not None:
                curi = z3.If(c, e.val(it), curi)
        return "done", (SymInt(e, curi) if key is not None else cur)
    if all(isinstance(k, (SymFloat, float, int)) for k in keys) and key is None:
        ks = [SymFloat.lift(e, k).z for k in keys]
        cur = ks[0]
        for k in ks[1:]:
            cur = z3.If(less(k, cur), k, cur)
        return "done", SymFloat(e, cur)
    return "fork", (items, keys)


def _fork_extreme(items, keys, want_less):
    best, bk = items[0], keys[0]
    for it, k in zip(items[1:], keys[1:]):
        c = (k < bk) if want_less else (k > bk)
        if c:
            best, bk = it, k
    return best


def smin(*a, **kw):
    if len(a) == 1:
        a = (list(a[0]),)
    st, r = _merge(a, kw, lambda k, c: _lt(k, c))
    if st == "done":
        return r
    if st == "fork":
        return _fork_extreme(r[0], r[1], True)
    return _min(*a, **kw)


def smax(*a, **kw):
    if len(a) == 1:
        a = (list(a[0]),)
    st, r = _merge(a, kw, lambda k, c: _lt(c, k))
    if st == "done":
        return r
    if st == "fork":
        return _fork_extreme(r[0], r[1], False)
    return _max(*a, **kw)


def _lt(a, b):
    if z3.is_fp(a):
        return z3.fpLT(a, b)
    return a < b


class patched_builtins:
    def __enter__(self):
        builtins.min, builtins.max = smin, smax
        self._ceil, self._floor = math.ceil, math.floor
        return self

    def __exit__(self, *a):
        builtins.min, builtins.max = _min, _max
        return False


def zsum(e, xs):
    return SymInt(e, z3.Sum([_z(e, x) for x in xs])) if xs else 0
