"""C08 - framing renderables draw exact rectangles around intact content (DESIGN.md 5, C08)."""
import io
from rich import box
from rich.align import Align
from rich.bar import Bar
from rich.columns import Columns
from rich.padding import Padding
from rich.panel import Panel
from rich.progress_bar import ProgressBar
from rich.rule import Rule
from rich.text import Text
from rich.tree import Tree

from vf.obl import symx
from vf import catalogue as cat
from vf.common import ref_width_concrete as rw

CHILD = [lambda: Text("hello brave new world"), lambda: Text("中文 wide 字 text"), lambda: Text("á́b zero\nsecond line"),
         lambda: cat._table(box=box.ASCII, cols=2, rows=1), lambda: Panel(Text("inner 中"), box=box.ASCII),
         # a child that does not respect the width it is given (40 cells on one line): the frame must still be a rectangle, with the
         # child's line cropped to the inner width
         lambda: Text("0123456789" * 4, no_wrap=True, overflow="ignore")]
CHILD_MIN = [1, 2, 1, 3 + 2 * 4, 4, 1]
OVERFLOWING = 5
BOXES = [box.ROUNDED, box.ASCII, box.DOUBLE, box.HEAVY]
TITLES = [None, "T", "a long title 中 here", Text("Tj", justify="left"), Text("styled 中", style="bold", justify="center")]
F8 = ["rich/panel.py:Panel.__rich_console__", "rich/padding.py:Padding.__rich_console__", "rich/align.py:Align.__rich_console__",
      "rich/console.py:Console.render_lines", "rich/segment.py:Segment.set_shape", "rich/rule.py:Rule.__rich_console__",
      "rich/bar.py:Bar.__rich_console__", "rich/progress_bar.py:ProgressBar.__rich_console__",
      "rich/columns.py:Columns.__rich_console__", "rich/tree.py:Tree.__rich_console__"]


def _child_lines(c, k, width):
    lines = cat.render_lines(c, CHILD[k](), width)
    if k == OVERFLOWING:
        lines = [l[:max(width, 0)] for l in lines]      # ASCII: one cell per character
    return [l.rstrip() for l in lines]


def _strip_tail(lines):
    return [l.rstrip() for l in lines]


def _panel_body(e, k, nboxes, wmax):
    bx = BOXES[int(e.mk("box", 0, nboxes - 1))]
    title = TITLES[int(e.mk("title", 0, len(TITLES) - 1))]
    talign = ["left", "center", "right"][int(e.mk("title_align", 0, 2))] if title else "center"
    expand = bool(e.mkbool("expand"))
    pl, pr = int(e.mk("pad_left", 0, 2)), int(e.mk("pad_right", 0, 2))
    pt = pb = int(e.mk("pad_top_bottom", 0, 1))
    smin = 2 + pl + pr + CHILD_MIN[k]
    if title:
        smin = max(smin, 7)
    w = int(e.mk("width", 1, wmax))
    if w < smin:
        return True
    c = cat.console()
    p = Panel(CHILD[k](), box=bx, title=title, title_align=talign, expand=expand, padding=(pt, pr, pb, pl))
    lines = cat.render_lines(c, p, w)
    ws = cat.widths(lines)
    if not lines or len(set(ws)) != 1 or ws[0] > w or (expand and ws[0] != w):
        return False
    lw = ws[0]
    inner = lw - 2 - pl - pr
    if inner < 1:
        return True
    body = lines[1:-1]
    if lines[0][0] != bx.top_left or lines[0][-1] != bx.top_right or lines[-1][0] != bx.bottom_left \
            or lines[-1][-1] != bx.bottom_right:
        return False
    if title is None and lines[0] != bx.get_top([lw - 2]):
        return False
    if lines[-1] != bx.get_bottom([lw - 2]):
        return False
    want = _child_lines(c, k, inner)
    if len(body) != pt + len(want) + pb:
        return False
    blank = bx.mid_left + " " * (lw - 2) + bx.mid_right
    for i, line in enumerate(body):
        if line[0] != bx.mid_left or line[-1] != bx.mid_right:
            return False
        if i < pt or i >= pt + len(want):
            if line != blank:
                return False
            continue
        interior = line[1:-1]
        if interior[:pl] != " " * pl or (pr and interior[len(interior) - pr:] != " " * pr):
            return False
        content = interior[pl:len(interior) - pr] if pr else interior[pl:]
        if content.rstrip() != want[i - pt] or rw(content) != inner:
            return False
    return True


def _mk_panel(k, tiers, timeout, nboxes, wmax):
    @symx("C08-panel-child%d-w%d" % (k, wmax), tiers=tiers, timeout=timeout, kind="C+S", functions=F8,
          bounds="Panel around child %d of 6 (ascii / wide / zero-width+multi-line text, ASCII table, nested panel, a 40-cell text that ignores the width) x %d boxes x 3 "
                 "titles (none, short, longer than many widths) x title_align x expand x padding left/right 0..2, top=bottom 0..1 x "
                 "available width from the structural minimum to %d (solver-enumerated, native): all lines equally wide (== width "
                 "when expanding), border cells are the box's, exactly the requested padding, and the child's own lines (rendered "
                 "alone at the inner width) appear unchanged and in order" % (k, nboxes, wmax))
    def h(e):
        return _panel_body(e, k, nboxes, wmax)
    return h


for _k in range(len(CHILD)):
    _mk_panel(_k, ("quick",), 900, 2, 30)
    _mk_panel(_k, ("thorough",), 3400, 4, 60)


@symx("C08-padding", timeout=1500, kind="C+S", functions=F8, tiers=("thorough",),
      bounds="Padding around the 6 children (five that fit, one 40-cell no_wrap/overflow='ignore' text that does not) x top/right/bottom/left in 0..2 x expand x available width from the structural minimum to "
             "40: equal line widths (== width when expanding), exactly the requested blank lines and side cells, child lines unchanged")
def c08_padding(e):
    return _padding_body(e, 2, 40)


@symx("C08-padding-quick", timeout=900, kind="C+S", functions=F8, tiers=("quick",),
      bounds="as C08-padding with top/right/bottom/left in 0..1 and width up to 30")
def c08_padding_q(e):
    return _padding_body(e, 1, 30)


def _padding_body(e, pmax, wmax):
    k = int(e.mk("child", 0, len(CHILD) - 1))
    pt, pr, pb, pl = [int(e.mk(n, 0, pmax)) for n in ("top", "right", "bottom", "left")]
    expand = bool(e.mkbool("expand"))
    w = int(e.mk("width", 1, wmax))
    if w < pl + pr + CHILD_MIN[k]:
        return True
    c = cat.console()
    lines = cat.render_lines(c, Padding(CHILD[k](), (pt, pr, pb, pl), expand=expand), w)
    ws = cat.widths(lines)
    if len(set(ws)) > 1 or (ws and (ws[0] > w or (expand and ws[0] != w))):
        return False
    lw = ws[0] if ws else 0
    inner = lw - pl - pr
    want = _child_lines(c, k, inner)
    if len(lines) != pt + len(want) + pb:
        return False
    for i, line in enumerate(lines):
        if i < pt or i >= pt + len(want):
            if line.strip() != "":
                return False
            continue
        if line[:pl] != " " * pl or (pr and line[len(line) - pr:] != " " * pr):
            return False
        content = line[pl:len(line) - pr] if pr else line[pl:]
        if content.rstrip() != want[i - pt]:
            return False
    return True


@symx("C08-align", timeout=900, kind="C+S", functions=F8,
      bounds="Align left/center/right (pad on/off, optional width cap 6..14) around the text children x available width 2..40: every "
             "line fits, padded lines are exactly the width, the child's lines appear unchanged at the documented offset")
def c08_align(e):
    k = int(e.mk("child", 0, 2))
    how = ["left", "center", "right"][int(e.mk("align", 0, 2))]
    pad = bool(e.mkbool("pad"))
    cap = int(e.mk("cap", 5, 14))
    cap = None if cap == 5 else cap
    w = int(e.mk("width", 2, 40))
    c = cat.console()
    lines = cat.render_lines(c, Align(CHILD[k](), how, pad=pad, width=cap), w)
    ws = cat.widths(lines)
    if any(x > w for x in ws):
        return False
    child_w = max(ws) if not pad and how == "left" else None
    # the child is rendered at min(its maximum, cap, available width)
    from rich.measure import Measurement
    mx = Measurement.get(c, CHILD[k]()).maximum
    cw = min(mx, cap if cap is not None else mx, w)
    want = cat.render_lines(c, CHILD[k](), cw)
    block = max(cat.widths(want)) if want else 0
    if len(lines) != len(want):
        return False
    excess = w - block
    left = {"left": 0, "center": excess // 2, "right": excess}[how] if excess > 0 else 0
    for line, wl in zip(lines, want):
        if line[:left] != " " * left:
            return False
        if line[left:].rstrip() != wl.rstrip():
            return False
        if (pad or how == "right") and excess > 0 and rw(line) != w and not (how == "left" and not pad):
            if not (how == "center" and not pad):
                return False
    return True


_RCHARS = ["-", "中", "ab", "─"]


class _AsciiFile(io.StringIO):
    encoding = "ascii"


@symx("C08-rule", timeout=900, kind="C+S", functions=F8,
      bounds="Rule with characters from %r x title in {none, 't', wide, longer than the width} x align x available width 1..60 (>= 5 "
             "with a title): x console encoding utf-8 / ascii (non-ASCII rule characters are then replaced): the rule is one line of exactly the width "
             "it is given and, for single-width rule characters, has no blanks at either end" % (_RCHARS,))
def c08_rule(e):
    ch = _RCHARS[int(e.mk("chars", 0, len(_RCHARS) - 1))]
    title = ["", "t", "标题 中", "a title that is longer than most widths"][int(e.mk("title", 0, 3))]
    how = ["left", "center", "right"][int(e.mk("align", 0, 2))]
    w = int(e.mk("width", 1, 60))
    if title and w < 5:
        return True
    if rw(ch) == 2 and w < 2:
        return True
    ascii_only = bool(e.mkbool("ascii_only_console"))
    c = cat.console()
    if ascii_only:
        c.file = _AsciiFile()
    lines = cat.render_lines(c, Rule(title, characters=ch, align=how), w)
    if len(lines) != 1 or rw(lines[0]) != w:
        return False
    if ascii_only and not title and any(ord(x) > 127 for x in lines[0]):
        return False
    # it FILLS the width: with single-width rule characters the line does not end (or start) in blanks
    drawn = "-" if (ascii_only and not ch.isascii()) else ch
    if all(rw(x) == 1 for x in drawn) and (not title or (title.isascii() and rw(title) + 4 <= w)) \
            and not (title and how == "right" and len(drawn) > 1):     # that combination crops the title (DESIGN.md 0.4, observed)
        return lines[0].strip() == lines[0]
    return True


@symx("C08-bars", timeout=900, kind="C+S", functions=F8,
      bounds="Bar(size, begin, end) and ProgressBar(total, completed, width cap, pulse) with total in {0,1,7,12}, completed in {0,1,3,7,12}, cap in {none,5,20}, pulse animation time in {0, .3, .75, .95}, available width "
             "1..40, colour on/off: never wider than the width; exactly the width (or the cap) when colour is available")
def c08_bars(e):
    w = int(e.mk("width", 1, 40))
    color = bool(e.mkbool("color"))
    c = cat.console(color_system="truecolor" if color else None, force_terminal=color)
    total = [0, 1, 7, 12][int(e.mk("total", 0, 3))]
    done = [0, 1, 3, 7, 12][int(e.mk("completed", 0, 4))]
    cap = [None, 5, 20][int(e.mk("cap", 0, 2))]
    pulse = bool(e.mkbool("pulse"))
    anim = [0.0, 0.3, 0.75, 0.95][int(e.mk("animation_time", 0, 3))] if pulse else 0.0
    pb = cat.render_lines(c, ProgressBar(total=total, completed=done, width=cap, pulse=pulse, animation_time=anim), w)
    want = min(cap, w) if cap else w
    if len(pb) > 1 or any(x > w for x in cat.widths(pb)):
        return False
    if color and pb and rw(pb[0]) != want:
        return False
    begin = min(done, total)
    bar = cat.render_lines(c, Bar(max(total, 1), begin, total, width=cap), w)
    if len(bar) > 1 or any(x > w for x in cat.widths(bar)):
        return False
    return not (bar and rw(bar[0]) != want)


_ITEMS = ["i%d" % k for k in range(7)]


@symx("C08-columns-order", timeout=900, kind="C+S", functions=F8,
      bounds="Columns of 1..7 distinct items x equal x expand x column_first x right_to_left x padding 0..2 x width 6..40: every item "
             "appears exactly once; reading the grid row-first (column-first / right-to-left as requested) gives the insertion order")
def c08_columns(e):
    n = int(e.mk("items", 1, 7))
    equal, expand = bool(e.mkbool("equal")), bool(e.mkbool("expand"))
    cf, rtl = bool(e.mkbool("column_first")), bool(e.mkbool("right_to_left"))
    pad = int(e.mk("padding", 0, 2))
    w = int(e.mk("width", 6, 40))
    c = cat.console()
    lines = cat.render_lines(c, Columns(_ITEMS[:n], equal=equal, expand=expand, column_first=cf, right_to_left=rtl,
                                        padding=(0, pad)), w)
    if any(x > w for x in cat.widths(lines)):
        return False
    import re
    grid = [re.findall(r"i[0-9]", l) for l in lines if l.strip()]
    flat = [x for row in grid for x in row]
    if sorted(flat) != sorted(_ITEMS[:n]):
        return False
    rows = [row[::-1] if rtl else row for row in grid]
    if cf:
        ncol = max(len(r) for r in rows)
        order = [rows[r][col] for col in range(ncol) for r in range(len(rows)) if col < len(rows[r])]
    else:
        order = [x for row in rows for x in row]
    return order == _ITEMS[:n]


def _mk_tree(shape, hide):
    t = Tree("n0")
    nodes = [t]
    labels = ["n0"]
    for i, parent in enumerate(shape, 1):
        node = nodes[parent].add("n%d" % i)
        nodes.append(node)
        labels.append("n%d" % i)
    if hide is not None and hide < len(nodes):
        nodes[hide].expanded = False
    return t, nodes


_SHAPES = [[], [0], [0, 0], [0, 1], [0, 1, 2], [0, 0, 1, 1], [0, 1, 1, 0, 3]]


@symx("C08-tree-order", timeout=900, kind="C+S", functions=F8,
      bounds="trees of 7 shapes (up to 6 nodes, depth 3) x one collapsed node or none x ascii-only x width 16..40: visible nodes "
             "appear once each, depth-first, each on its own line with a guide prefix of four cells per level; children of a collapsed "
             "node are absent")
def c08_tree(e):
    shape = _SHAPES[int(e.mk("shape", 0, len(_SHAPES) - 1))]
    hide = int(e.mk("collapsed", 0, 6))
    hide = None if hide == 6 else hide
    w = int(e.mk("width", 16, 40))
    legacy = bool(e.mkbool("ascii"))
    t, nodes = _mk_tree(shape, hide)
    c = cat.console(legacy_windows=legacy, force_terminal=legacy)
    lines = cat.render_lines(c, t, w)
    depth = {0: 0}
    children = {i: [] for i in range(len(shape) + 1)}
    for i, parent in enumerate(shape, 1):
        depth[i] = depth[parent] + 1
        children[parent].append(i)
    want = []

    def walk(i):
        want.append(i)
        if hide is not None and i == hide:
            return
        for ch in children[i]:
            walk(ch)
    walk(0)
    if len(lines) != len(want):
        return False
    for line, i in zip(lines, want):
        label = "n%d" % i
        if not line.rstrip().endswith(label) or line.count(label) != 1:
            return False
        if rw(line.rstrip()) - len(label) != 4 * depth[i]:
            return False
    return True


# --- Rule with a symbolic width (S, CrossHair): the whole width range at once ----------------------------------------------
from vf.obl import xh  # noqa: E402


def _mk_rule_sym(chars, title, tiers, timeout):
    def pre(width: int) -> bool:
        return (5 if title else 2) <= width <= 200

    @xh("C08-rule-symbolic-width-%s%s" % ("wide" if chars != "-" else "dash", "-title" if title else ""), pre=pre, tiers=tiers,
        timeout=timeout, kind="S", functions=["rich/rule.py:Rule.__rich_console__", "rich/text.py:Text.truncate", "rich/cells.py:set_cell_size"],
        stubs=["S1", "S2", "S4"],
        bounds="Rule(characters=%r, title=%r) rendered with the available width a symbolic integer in %d..200: the single line "
               "produced is exactly that many cells wide" % (chars, title, 5 if title else 2))
    def h(width: int) -> bool:
        c = cat.console()
        lines = cat.render_lines(c, Rule(title, characters=chars), width)
        if len(lines) != 1:
            return False
        total = 0
        for ch in lines[0]:
            total += 2 if ch == "中" else 1
        return total == width
    return h


_mk_rule_sym("-", "", ("quick", "thorough"), 600)
_mk_rule_sym("中", "", ("thorough",), 1500)
_mk_rule_sym("-", "t", ("thorough",), 1500)


@symx("C08-bar-thumb", timeout=900, kind="C+S", functions=["rich/bar.py:Bar.__rich_console__"],
      bounds="Bar(size, begin, end) as a scrollbar thumb: size in {8, 100, 1000}, begin 0..15, end = begin + {0, 1, 2, 5}, available "
             "width 1..40, colour on/off (solver-enumerated, native): one line, never wider than the width, exactly the width")
def c08_bar_thumb(e):
    size = [8, 100, 1000][int(e.mk("size", 0, 2))]
    begin = int(e.mk("begin", 0, 15))
    end = begin + [0, 1, 2, 5][int(e.mk("extent", 0, 3))]
    w = int(e.mk("width", 1, 40))
    color = bool(e.mkbool("color"))
    c = cat.console(color_system="truecolor" if color else None, force_terminal=color)
    lines = cat.render_lines(c, Bar(size, begin, end), w)
    return len(lines) == 1 and rw(lines[0]) == w


# --- one ProgressBar object rendered, updated and rendered again (state on the bar) ----------------------------------------
@symx("C08-bars-history", timeout=900, kind="C+S", functions=["rich/progress_bar.py:ProgressBar.__rich_console__", "rich/progress_bar.py:ProgressBar.update",
                                                             "rich/progress_bar.py:ProgressBar._render_pulse"],
      bounds="ONE ProgressBar (total 10 or 200, completed from {0, 5, 150, 300}, pulse on/off, colour on/off) rendered at a width from "
             "{1, 4, 10, 33, 80}, then update(completed from {0, 3, 150}, total from {unchanged, 2, 120, 400}) or none, then rendered "
             "at a second width from the same set: each rendering is one line, never wider than its width and exactly the width when "
             "colour is available (solver-enumerated, native)")
def c08_bars_history(e):
    widths = [1, 4, 10, 33, 80]
    color = bool(e.mkbool("color"))
    c = cat.console(color_system="truecolor" if color else None, force_terminal=color)
    total = [10, 200][int(e.mk("total", 0, 1))]
    done = [0, 5, 150, 300][int(e.mk("completed", 0, 3))]
    pulse = bool(e.mkbool("pulse"))
    bar = ProgressBar(total=total, completed=done, pulse=pulse, animation_time=0.3)
    w1 = widths[int(e.mk("w1", 0, 4))]
    w2 = widths[int(e.mk("w2", 0, 4))]

    def ok(w):
        lines = cat.render_lines(c, bar, w)
        if len(lines) > 1 or any(x > w for x in cat.widths(lines)):
            return False
        return not (color and lines and rw(lines[0]) != w)
    if not ok(w1):
        return False
    upd = int(e.mk("update", 0, 3))
    if upd:
        nt = [None, 2, 120, 400][int(e.mk("new_total", 0, 3))]
        bar.update([0, 3, 150][upd - 1], total=nt)
    return ok(w2) and ok(w1)
