# edited by hand; consumed by tools_mkmanifest.py
_NOTE = ("Trusted: CPython, z3 5.1, CrossHair's models of str/int/list, the harness-side stubs listed per obligation in the "
         "evidence (cell_len memo pass-through, lru_cache removal, real-valued floats for int*int/int quotients, opaque style tags). "
         "Every claim holds only inside the bounds stated per obligation; inconclusive obligations are reported and never counted.")
_P = ("solver-driven exhaustive enumeration of a bounded input space by the symx engine (z3 chooses and blocks each value combination; "
      "the unmodified Rich code runs on it and is compared with an independent reference)")
CLAIMED["C01"] = ("symbolic execution (symx, z3 Int + exact rationals) of Table._calculate_column_widths/_collapse_widths/ratio_reduce/ratio_distribute with symbolic cell measurements and budget; " + _P + " for rendered trees",
 "Column-width solver: for all cell measurements <=200 and budgets <=240 (2 and 3 columns, 9 option sets; thorough also <=1500/2000) the widths never exceed the budget. Rendered catalogue of 57 trees: every width from the structural minimum to 60 (thorough 200). 3-col padded expanding option sets are decided for budgets <=24 / cells <=16 (z3 answers unknown above). A Text object shared between a title and ordinary content never produces an over-wide line.",
 _NOTE, "DESIGN.md 5 C01")
CLAIMED["C02"] = (_P + " over word triples x separators x span grids x widths x justify x overflow x no_wrap, Text.wrap run natively",
 "divide_line decided for ALL strings up to length 4 (thorough 6) over a mixed-width alphabet (CrossHair, symbolic); Text.wrap exhaustively over word triples x separators x span grids (incl. identical-valued spans) x widths x 5 justify x 4 overflow x no_wrap. The segments the console renders for the same Text are compared per character as well (joined lines, not only wrap()'s lines).",
 _NOTE, "DESIGN.md 5 C02")
CLAIMED["C03"] = (_P + "; emitted stream decoded by an independent SGR/OSC-8 terminal model",
 "For every colour system and console flag combination, styles with up to one (thorough: two) attributes, 8 colour kinds for fg/bg and a link: the bytes written decode to the segments' characters, attributes, down-converted colours and link, with no leak; the SGR attribute list for ALL 2^13 x 2^13 mask pairs symbolically (thorough); reuse of one Style object across colour / NO_COLOR consoles. Combination of styles whose SGR strings are already cached; a console whose file is switched between terminal and non-terminal.",
 _NOTE, "DESIGN.md 5 C03")
CLAIMED["C04"] = ("CrossHair symbolic execution of markup.render/escape (regex tokenizer on symbolic strings) against a hand-written scanner; " + _P + " for token documents",
 "escape round trip and scanner-model agreement for ALL strings up to length 5/4 over the syntax alphabet (symbolic); precedence of later-opened tags over every document of up to 5 (thorough 6) tokens. Expected styles are computed field by field (independent of Style.__add__), with a 'not bold' tag in the alphabet.",
 _NOTE, "DESIGN.md 5 C04")
CLAIMED["C05"] = (_P + ": one inductive step per Text operation from a solver-chosen pre-state against a list-of-(char, tags) reference",
 "Every editing operation re-establishes len(text)==len(plain) and agreement with the reference from any catalogue pre-state and any argument inside/at/beyond the ends; histories follow by induction. Results of divide/split/copy/slice/+ are independent values (editing one never edits the other); negative pad counts followed by a further edit.",
 _NOTE, "DESIGN.md 5 C05")
CLAIMED["C06"] = ("bounded symbolic execution of Style.__add__/__eq__/__hash__ over all 13-bit attribute masks (symx, z3 BitVec + uninterpreted hash); CrossHair for color(n)/rgb() parsing; solver-enumerated str/parse round trips",
 "Associativity, identity, right bias and hash consistency of every construction route for ALL attribute masks and all None/token combinations of colour, bgcolor, link; color(n), rgb(r,g,b) for all values; round trips for <=2 attributes x 10 colour spellings; all 256 colour names. String form of derived styles (update_link, without_color, copy, +, chain, combine) with the source's definition cached first.",
 _NOTE + " hash() is an uninterpreted function in the symbolic run (S5); counterexamples are replayed with the real hash.", "DESIGN.md 5 C06")
CLAIMED["C07"] = ("symbolic execution (symx) of the column-width solver with expand; " + _P + " for box rows and rendered ASCII-box tables",
 "expand => widths sum exactly to the budget for all measurements/budgets (2,3 columns); every box's border rows have the exact width; rendered tables (<=3 columns, <=3 rows) are rectangles showing every cell character in its own column. A table nested in a grid / no_wrap column / Panel / Padding renders exactly as on its own. 3-col padded expanding kernels decided for budgets <=24.",
 _NOTE, "DESIGN.md 5 C07")
CLAIMED["C08"] = (_P + " over frame options and widths, rendered natively and compared with the child rendered alone",
 "Panel/Padding/Align/Rule/Bar/ProgressBar/Columns/Tree: exact rectangles, exact padding, child lines intact, exact rule width, item order, guide prefix, for every option combination and width inside the bounds. One ProgressBar rendered, updated and rendered again; rules on ascii-only consoles fill the width without blanks.",
 _NOTE, "DESIGN.md 5 C08")
CLAIMED["C09"] = ("symbolic execution (symx) of Measurement.get/normalize/clamp and Table.__rich_measure__ with arbitrary raw measurements; CrossHair on Text.__rich_measure__ over symbolic strings; " + _P + " for render-at-measure",
 "0<=min<=max<=width for ANY raw measurement and width<=60; Text minimum/maximum equal widest word/line for all strings up to length 3 (thorough 5); rendering each catalogue tree at its reported min/max never overflows. Text measured again after an in-place edit of equal length; Text options (justify x overflow x no_wrap) rendered at every width between the measured minimum and maximum.",
 _NOTE, "DESIGN.md 5 C09")
CLAIMED["C10"] = (_P + ": single-threaded Live histories replayed on a VT100-subset screen model; exception injection at every render index / block position",
 "Reduced claim: every Live history of 2 (thorough 3) and every Progress history of 3 (thorough 4) operations + stop on a small terminal leaves exactly the printed lines and the current frame; an exception at every render index / block position restores cursor, redirection and hooks and leaves printed lines intact. No threads, no longer histories. Writes through the redirected sys.stdout/sys.stderr including a partial line pending at stop(); frames that render to no lines.",
 _NOTE + " Thread-related clauses are not applicable (see C11).", "DESIGN.md 5 C10")
CLAIMED["C12"] = ("symbolic execution (symx, z3 Int + exact rationals, symbolic clock) of the real Progress/Task methods over solver-enumerated operation sequences",
 "Sequential histories only: every 2 (thorough 3) operation history over two tasks with symbolic amounts, totals and clock steps satisfies the accounting, percentage, finished/finish-time, speed and time-remaining clauses; track() for lengths 0..4. Tasks that keep advancing after stop_task (quick).",
 _NOTE + " Multi-thread clauses of the statement are outside the claim (C11).", "DESIGN.md 5 C12")
CLAIMED["C13"] = ("bounded symbolic execution of rich.cells / rich.segment with z3 (symx over all code points; CrossHair over symbolic strings)",
 "Every code point 0..0x10FFFF decided symbolically against a linear scan of the width table; set_cell_size / chop_cells / segment shaping for all strings over a mixed-width alphabet up to a stated length and all sizes; cache transparency as an inductive step and with the real caches. split_and_crop_lines with include_new_lines symbolic, all lines materialised before inspection.",
 _NOTE, "DESIGN.md 5 C13")
CLAIMED["C14"] = ("CrossHair symbolic execution of Color.parse / markup.render / AnsiDecoder.decode with declared raises-sets over symbolic strings; " + _P + " for style token sequences, printed strings and catalogue renders",
 "Only documented exceptions for all template fillers up to the stated lengths; no exception from rendering/measuring/printing any catalogue tree at any width 1..40 (thorough 200). One styled object rendered repeatedly at different widths; control codes followed by styling (markup, assemble, append, decoder).",
 _NOTE, "DESIGN.md 5 C14")
CLAIMED["C15"] = (_P + " over segment lists and API histories on a recording console; exports compared via the independent terminal model",
 "All 2 (thorough 3) segment lists / operation histories x colour system x terminal x NO_COLOR: export_text, export_html (both modes), styled export and capture agree with the file's visible text (incl. entity-shaped text, control segments); clear semantics. A capture left by an exception followed by ordinary output and another capture; the styled export of repeated prints with shared Style objects.",
 _NOTE, "DESIGN.md 5 C15")
CLAIMED["C16"] = (_P + " over a value catalogue x max_width x indent x expand_all x max_length x max_string",
 "For 74 catalogue values: eval round trip, repr equality when it fits, token order, layout rules with max_width SYMBOLIC over 1..1,000,000 (each path = one layout for a whole interval of widths); exact abbreviation counts, shared-object and cycle handling, for every option value in the bounds. One Pretty object measured and rendered at a sequence of widths; float arrays of three and more items.",
 _NOTE, "DESIGN.md 5 C16")
CLAIMED["C18"] = ("symbolic execution of Color.downgrade / Palette.match / get_ansi_codes with z3 (Float64 semantics for truecolor->256, BitVec for the weighted metric)",
 "For all 2^24 colours: conversion to 16-colour palettes is in gamut, idempotent, order-independent and minimal under the documented metric; all 256 indexed colours; SGR parameters for every colour kind. Truecolor->256 with exact IEEE semantics: greys (quick), all 2^24 colours (thorough). Conversion histories with the real caches (converted colours converted again; neighbouring colours matched in sequence).",
 _NOTE + " L2: sqrt replaced by an order-isomorphic stub.", "DESIGN.md 5 C18")
CLAIMED["C19"] = (_P + " for encode->decode round trips and FileProxy write/flush sequences; CrossHair for the decoder's colour arithmetic on symbolic decimal text",
 "Round trip of every style in the bounds through a truecolor console and AnsiDecoder; 38;5;n / 48;5;n for all n and 38;2;r;g;b one channel at a time symbolically; every 3 (thorough 4) token stream cut at two arbitrary offsets through FileProxy. Decoder state over sequences of SGR and OSC 8 tokens across lines, directly and through a FileProxy; repeated prints of nested spans.",
 _NOTE, "DESIGN.md 5 C19")
CLAIMED["C20"] = ("symbolic execution (symx) of ThemeStack.push_theme/pop_theme as an inductive step with symbolic presence flags and opaque values; " + _P + " for Console histories and config round trips",
 "Any stack of 1-2 entries x any pushed theme over 3 names x inherit: lookups after push/pop as specified (induction gives any history); real Console histories of 2 (thorough 3) push/pop/use_theme operations incl. exceptions; config round trip. use_theme context objects entered more than once; several config round trips in one process.",
 _NOTE, "DESIGN.md 5 C20")
NA["C11"] = "quantifies over thread schedules of the real console/live code; no engine here can make the schedule a solver variable (DESIGN.md 6)"
NA["C17"] = "decided by third-party Pygments lexers (C regex engine) and linecache; cannot be executed symbolically (DESIGN.md 6)"
