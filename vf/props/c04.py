"""C04 - markup styles exactly the tagged regions; escape() neutralises (DESIGN.md 5, C04)."""
import io

from rich.console import Console
from rich.errors import MarkupError
from rich.markup import escape, render
from rich.style import Style

from vf.obl import symx, xh
from vf.common import native, over, pin
from vf import refmodel

F_MK = ["rich/markup.py:render", "rich/markup.py:_parse", "rich/markup.py:escape", "rich/markup.py:RE_TAGS",
        "rich/text.py:Text.append", "rich/style.py:Style.normalize"]
SIGMA_M = "[]\\/=a# "
SIGMA_C = "[]/\\x ="


# --- a. escape round trip (S) ---------------------------------------------------------------------------------
def _mk_escape(n, tiers, timeout):
    def pre(s: str) -> bool:
        return len(s) == n and over(s, SIGMA_M)

    @xh("C04-a-escape-roundtrip-len%d" % n, pre=pre, tiers=tiers, timeout=timeout, kind="S", functions=F_MK,
        bounds="all strings of length %d over {[ ] \\ / = a # space}: render(escape(s)) has plain text s and no spans" % n,
        outside="longer strings; other characters", stubs=["S2"])
    def h(s: str) -> bool:
        t = render(escape(s), emoji=False)
        return t.plain == s and len(t.spans) == 0
    return h


for _n, _t, _to in [(0, ("quick", "thorough"), 60), (1, ("quick", "thorough"), 60), (2, ("quick", "thorough"), 120),
                    (3, ("quick", "thorough"), 300), (4, ("quick", "thorough"), 900), (5, ("quick", "thorough"), 1500)]:
    _mk_escape(_n, _t, _to)


# --- b. escape embedded between complete markup (S) ---------------------------------------------------------------
def _closed_brackets(s) -> bool:
    """every '[' in s is followed by a later ']' within s"""
    need = False
    for c in s:
        if c == "[":
            need = True
        elif c == "]":
            need = False
    return not need


def _mk_embed(n, tiers, timeout):
    def pre(s: str) -> bool:
        return len(s) == n and over(s, SIGMA_M) and not s.endswith("\\") and _closed_brackets(s)

    @xh("C04-b-escape-embedded-len%d" % n, pre=pre, tiers=tiers, timeout=timeout, kind="S", functions=F_MK,
        bounds="all strings s of length %d over {[ ] \\ / = a # space} not ending in a backslash and with every '[' closed: "
               "render('[bold]x[/bold]' + escape(s) + '[italic]y[/]') keeps s verbatim and unstyled" % n, stubs=["S2"])
    def h(s: str) -> bool:
        t = render("[bold]x[/bold]" + escape(s) + "[italic]y[/]", emoji=False)
        if t.plain != "x" + s + "y":
            return False
        spans = sorted((sp.start, sp.end, sp.style) for sp in t.spans)
        return spans == [(0, 1, "bold"), (1 + len(s), 2 + len(s), "italic")]
    return h


for _n, _t, _to in [(1, ("quick", "thorough"), 120), (2, ("quick", "thorough"), 300), (3, ("thorough",), 2400),
                    (4, ("thorough",), 3400)]:
    _mk_embed(_n, _t, _to)


# --- c. scanner model: error condition, plain text, tags per character (S) --------------------------------------
def _mk_model(n, tiers, timeout):
    def pre(s: str) -> bool:
        return len(s) == n and over(s, SIGMA_C)

    @xh("C04-c-model-len%d" % n, pre=pre, tiers=tiers, timeout=timeout, kind="S", functions=F_MK, stubs=["S2"],
        bounds="all strings of length %d over {[ ] / \\ x space =}: MarkupError exactly when the reference scanner finds a closing "
               "tag with nothing to close; otherwise equal plain text and, per character, the same multiset of open tags" % n,
        outside="tag names that are valid style definitions (normalisation is identity-after-strip on this alphabet); precedence "
                "between tags is decided by C04-d")
    def h(s: str) -> bool:
        try:
            want_plain, want_tags = refmodel.markup(s)
            want_err = False
        except refmodel.RefMarkupError:
            want_err = True
        try:
            t = render(s, emoji=False)
        except MarkupError:
            return want_err
        if want_err:
            return False
        if t.plain != want_plain:
            return False
        for i in range(len(want_plain)):
            got = sorted(sp.style for sp in t.spans if sp.start <= i < sp.end)
            if got != sorted(want_tags[i]):
                return False
        return True
    return h


for _n, _t, _to in [(1, ("quick", "thorough"), 60), (2, ("quick", "thorough"), 120), (3, ("quick", "thorough"), 400),
                    (4, ("quick", "thorough"), 1200), (5, ("thorough",), 3400)]:
    _mk_model(_n, _t, _to)


# --- d. documents from token sequences, real conflicting styles: precedence (P) ----------------------------------
_TOKENS = ["t", "[red]", "[blue]", "[not bold]", "[/red]", "[/blue]", "[/]", "\\[red]", "[b]", "[/bold]", "u\nv",
           "[link=http://e/?q=1&r=2]"]
_NT = len(_TOKENS)
_CON = Console(file=io.StringIO(), color_system="truecolor", width=80, force_terminal=True)


def _norm_real(name):
    return Style.normalize(name)


def _doc_ok(ks) -> bool:
    doc = "".join(_TOKENS[k] for k in ks)
    try:
        want_plain, want_tags = refmodel.markup(doc, norm=_norm_real)
        want_err = False
    except refmodel.RefMarkupError:
        want_err = True
    try:
        t = render(doc, emoji=False)
    except MarkupError:
        return want_err
    if want_err:
        return False
    if t.plain != want_plain:
        return False
    # effective style per character: the tag opened last wins
    got = []
    for seg in t.render(_CON):
        got.extend([seg.style] * len(seg.text))
    if len(got) != len(want_plain):
        return False
    for i, tags in enumerate(want_tags):
        # the expected combination is computed field by field (not with Style.__add__): a later tag wins where it says something
        w_color = w_bold = w_link = None
        for tg in tags:
            st = Style.parse(tg)
            if st.color is not None:
                w_color = st.color
            if st.bold is not None:
                w_bold = st.bold
            if st.link:
                w_link = st.link
        g = got[i] if got[i] is not None else Style()
        if (g.color, g.bold, g.link) != (w_color, w_bold, w_link):
            return False
    return True


def _mk_docs(n, first, tiers, timeout):
    @symx("C04-d-documents-%dtokens-first%d" % (n, first), tiers=tiers, timeout=timeout, kind="P",
          functions=F_MK + ["rich/text.py:Text.render"],
          bounds="every document of 1..%d tokens from %r starting with token %r (solver-enumerated, native): error condition, plain "
                 "text, and per character the effective colour/bold/link = combination of the open tags, later-opened winning (read from "
                 "rendered segments)" % (n, _TOKENS, _TOKENS[first]))
    def h(e):
        k = int(e.mk("ntokens", 1, n))
        ks = [first] + [int(e.mk("k%d" % i, 0, _NT - 1)) for i in range(1, k)]
        return _doc_ok(ks)
    return h


for _f in range(_NT):
    _mk_docs(5, _f, ("quick", "thorough"), 900)
    _mk_docs(6, _f, ("thorough",), 3400)


# --- one document after another: a render that raised (or not) leaves nothing behind for the next (P) ---------------------------
@symx("C04-d-documents-in-sequence", timeout=900, kind="P", functions=F_MK + ["rich/text.py:Text.render"],
      bounds="every pair of documents (first: 1..2 tokens, second: 1..2 tokens from %r) rendered one after the other in one process "
             "- the first may raise MarkupError with tags still open, may leave tags unclosed, or may be complete: the second document "
             "gives the error condition, plain text and per-character effective style of the reference, as on its own" % (_TOKENS,),
      outside="longer documents in sequence (single documents up to 5/6 tokens: C04-d-documents-*)")
def c04_docs_sequence(e):
    k1 = int(e.mk("ntokens1", 1, 2))
    ks1 = [int(e.mk("a%d" % i, 0, _NT - 1)) for i in range(k1)]
    k2 = int(e.mk("ntokens2", 1, 2))
    ks2 = [int(e.mk("b%d" % i, 0, _NT - 1)) for i in range(k2)]
    try:
        render("".join(_TOKENS[k] for k in ks1), emoji=False)
    except MarkupError:
        pass
    return _doc_ok(ks2)


# --- escape() round trip with line breaks inside brackets (P) -------------------------------------------------------------------
_NL_ALPHA = "[]/a\n\\"


@symx("C04-a-escape-roundtrip-newlines", timeout=900, kind="P", functions=F_MK,
      bounds="every string of length 0..5 over %r (solver-enumerated, native): render(escape(s)) has plain text s and no spans, and - "
             "when s does not end in a backslash and every '[' is closed by a later ']' - also between complete markup "
             "'[bold]x[/bold]' + escape(s) + '[italic]y[/]' the text s comes back verbatim and unstyled" % (_NL_ALPHA,),
      outside="longer strings; other characters (C04-a/b cover the alphabet without the line break symbolically)")
def c04_escape_newlines(e):
    from rich.markup import escape
    n = int(e.mk("len", 0, 5))
    s = "".join(_NL_ALPHA[int(e.mk("c%d" % i, 0, len(_NL_ALPHA) - 1))] for i in range(n))
    t = render(escape(s), emoji=False)
    if t.plain != s or t.spans:
        return False
    closed = all("]" in s[i:] for i, ch in enumerate(s) if ch == "[")
    if s.endswith("\\") or not closed:
        return True
    t = render("[bold]x[/bold]" + escape(s) + "[italic]y[/]", emoji=False)
    if t.plain != "x" + s + "y":
        return False
    return all(not (sp.start < 1 + len(s) and sp.end > 1) for sp in t.spans)
