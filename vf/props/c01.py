"""C01 - rendered output never exceeds the available width (DESIGN.md 5, C01)."""
from vf.obl import symx, xh
from vf.symx import sym_and, sym_implies, sym_or
from vf import kernel

F_K = ["rich/table.py:Table._calculate_column_widths", "rich/table.py:Table._collapse_widths", "rich/table.py:Table._measure_column",
       "rich/_ratio.py:ratio_reduce", "rich/_ratio.py:ratio_distribute", "rich/measure.py:Measurement.get",
       "rich/measure.py:Measurement.normalize", "rich/measure.py:Measurement.with_maximum", "rich/measure.py:Measurement.clamp",
       "rich/padding.py:Padding.__rich_measure__"]
K_STUBS = ["S7: cells are stub renderables with symbolic (min,max) measurements", "S3: min/max merged into If-terms",
           "L1: int*int/int quotients are exact rationals (round/ceil exact)"]

OPTSETS = {
    "plain": {},
    "expand": {"expand": True},
    "pad": {"padding": (0, 1)},
    "pad-expand": {"padding": (0, 1), "expand": True},
    "pad-collapse": {"padding": (0, 2, 0, 1), "collapse_padding": True},
    "pad-noedge-expand": {"padding": (0, 1), "pad_edge": False, "expand": True},
    "ratio-expand": {"expand": True, "ratios": [1, 2, 1, 2]},
    "ratio-mixed-expand": {"expand": True, "ratios": [None, 2, 1, None], "padding": (0, 1)},
    "minwidth": {"min_width": 30},
}


def _mk_kernel(n, oname, tiers, timeout, wmax=240, cell_hi=200, bv=None):
    opts = dict(OPTSETS[oname])
    if opts.get("ratios"):
        opts["ratios"] = opts["ratios"][:n]

    @symx("C01-kernel-%dcol-%s%s" % (n, oname, "" if wmax == 240 else "-w%d" % wmax), tiers=tiers, timeout=timeout, kind="S", functions=F_K, stubs=K_STUBS,
          opts=dict({"query_timeout_ms": 900000}, **({"bv": bv} if bv else {})),
          bounds="%d flexible wrappable columns, cell measurements 0<=min<=max<=%d symbolic, column-width budget from the "
                 "structural minimum (1 cell + padding per column) to %d symbolic, options %r" % (n, cell_hi, wmax, opts),
          outside="more columns (4 columns did not finish in 600 s), no_wrap / fixed-width columns (not 'free to wrap')")
    def h(e):
        t, cells = kernel.mk_table(e, n, opts, cell_hi=cell_hi)
        smin = kernel.structural_min(t, n)
        w = e.mk("w", smin, wmax)
        widths = t._calculate_column_widths(kernel.console(), w)
        total = sum(widths)
        ok = total <= w
        for x in widths:
            ok = sym_and(ok, x >= 0)
        return ok
    return h


for _o in ["plain", "expand", "pad", "pad-expand", "pad-collapse", "ratio-expand", "minwidth"]:
    _mk_kernel(2, _o, ("quick", "thorough"), 300)
for _o in ["pad-noedge-expand", "ratio-mixed-expand"]:
    _mk_kernel(2, _o, ("thorough",), 600)
for _o in ["plain", "expand", "pad-expand", "ratio-expand", "minwidth"]:
    _mk_kernel(2, _o, ("thorough",), 1800, wmax=2000, cell_hi=1500)
for _o in ["plain", "ratio-expand"]:
    _mk_kernel(3, _o, ("quick", "thorough"), 900)
for _o in ["expand", "pad", "pad-collapse", "ratio-mixed-expand", "minwidth"]:
    _mk_kernel(3, _o, ("thorough",), 3000)
# three padded expanding columns: with budgets up to 240 (and up to 60) z3 answers `unknown` after its 900 s query timeout
# (non-linear integer arithmetic from ratio_distribute over three symbolic widths; a 24-bit bit-vector encoding did not finish
# in 25 min either); the smaller stated bound is decided in about 3 minutes
for _o in ["pad-expand", "pad-noedge-expand"]:
    _mk_kernel(3, _o, ("thorough",), 2400, wmax=24, cell_hi=16)


# --- composition: real renderable trees, every width from the structural minimum (C+S) ---------------------------------
from vf import catalogue as cat  # noqa: E402

F_C = ["rich/console.py:Console.render", "rich/console.py:Console.render_lines", "rich/text.py:Text.wrap", "rich/_wrap.py:divide_line",
       "rich/panel.py:Panel.__rich_console__", "rich/padding.py:Padding.__rich_console__", "rich/align.py:Align.__rich_console__",
       "rich/constrain.py:Constrain.__rich_console__", "rich/rule.py:Rule.__rich_console__", "rich/bar.py:Bar.__rich_console__",
       "rich/progress_bar.py:ProgressBar.__rich_console__", "rich/tree.py:Tree.__rich_console__",
       "rich/columns.py:Columns.__rich_console__", "rich/table.py:Table.__rich_console__", "rich/table.py:Table._render",
       "rich/segment.py:Segment.split_and_crop_lines"]


def _mk_comp(lo, hi, tiers, timeout, wmax):
    @symx("C01-render-w%d-trees%d-%d" % (wmax, lo, hi), tiers=tiers, timeout=timeout, kind="C+S", functions=F_C,
          bounds="catalogue trees %s x every available width from the tree's structural minimum to %d x ascii_only/legacy_windows "
                 "off and on (solver-enumerated, rendered natively through Console.render, not Console.print): no line wider than "
                 "the available width (reference cell widths)" % (cat.NAMES[lo:hi], wmax),
          outside="trees outside the catalogue; widths above %d" % wmax)
    def h(e):
        i = int(e.mk("tree", lo, hi - 1))
        name, factory, smin = cat.TREES[i]
        w = int(e.mk("width", 1, wmax))
        if w < smin:
            return True
        legacy = bool(e.mkbool("legacy_windows"))
        c = cat.console(legacy_windows=legacy, force_terminal=legacy)
        lines = cat.render_lines(c, factory(), w)
        return all(x <= w for x in cat.widths(lines))
    return h


_NT = len(cat.TREES)
for _lo in range(0, _NT, 6):
    _mk_comp(_lo, min(_NT, _lo + 6), ("quick",), 900, 60)
    _mk_comp(_lo, min(_NT, _lo + 6), ("thorough",), 3000, 200)


# --- one Text object used as a title / label / header AND as ordinary content (rendering must not alter its argument) ---------
from rich.console import RenderGroup  # noqa: E402
from rich.panel import Panel  # noqa: E402
from rich.rule import Rule  # noqa: E402
from rich.table import Table  # noqa: E402
from rich.text import Text  # noqa: E402
from rich.tree import Tree  # noqa: E402


def _shared_holder(kind, t):
    body = Text("all targets are up to date")
    if kind == 0:
        return Panel(body, title=t)
    if kind == 1:
        return Panel.fit(body, title=t)
    if kind == 2:
        tb = Table(title=t, caption=t)
        tb.add_column(t)
        tb.add_row(body)
        return tb
    if kind == 3:
        return Rule(t)
    tr = Tree(t)
    tr.add(t)
    return tr


@symx("C01-shared-text-object", timeout=600, kind="C+S", functions=F_C + ["rich/panel.py:Panel._title"],
      bounds="ONE Text object (3 contents, optionally styled and right-justified) used as the title of a Panel / Panel.fit / Table "
             "(title, caption and header) / Rule / Tree label and then again as ordinary content of the same group, followed by "
             "another Text; the group is rendered twice at every width 8..48 (solver-enumerated, native): no line is wider than "
             "the width, and (except after Rule, which truncates the caller's Text in place - observed, outside C01) the lines of "
             "the shared Text as content are those of a fresh Text of the same value")
def c01_shared(e):
    kind = int(e.mk("holder", 0, 4))
    content = ["Build status", "中文 heading 字", "a heading that is longer than the body below it, really"][int(e.mk("content", 0, 2))]
    styled = bool(e.mkbool("styled"))
    w = int(e.mk("width", 8, 48))

    def mk():
        t = Text(content, style="bold" if styled else "", justify="right" if styled else None)
        if styled:
            t.stylize("red", 0, 3)
        return t
    t = mk()
    c = cat.console()
    group = RenderGroup(_shared_holder(kind, t), t, Text("12 passed, 0 failed"))
    fresh_tail = cat.render_lines(c, RenderGroup(mk(), Text("12 passed, 0 failed")), w)
    for _round in range(2):
        lines = cat.render_lines(c, group, w)
        if any(x > w for x in cat.widths(lines)):
            return False
        if kind != 3 and lines[len(lines) - len(fresh_tail):] != fresh_tail:
            return False
    return True
