"""Run ONE obligation in this process and print a JSON result line.

usage: python -m vf.worker <prop> <obl-id> run|replay [json-args] [--exclude json-list]
"""
import importlib
import json
import os
import resource
import sys
import time
import traceback

sys.path.insert(0, os.path.dirname(os.path.dirname(os.path.abspath(__file__))))
sys.setrecursionlimit(10000)


def load(prop):
    importlib.import_module("vf.props." + prop.lower())
    from vf.obl import REGISTRY
    return REGISTRY


class QStats:
    n = 0
    t = 0.0


def _patch_z3_stats():
    import z3
    if getattr(z3.Solver.check, "_vf", False):
        return
    orig = z3.Solver.check

    from crosshair.tracers import NoTracing

    def check(self, *a):
        with NoTracing():
            t = time.perf_counter()
            try:
                return orig(self, *a)
            finally:
                QStats.n += 1
                QStats.t += time.perf_counter() - t
    check._vf = True
    z3.Solver.check = check


def _jsonable(v):
    try:
        json.dumps(v)
        return v
    except TypeError:
        return repr(v)


# ---------------------------------------------------------------------------
def run_xh_once(o, twin, timeout, exclude=()):
    import inspect
    from collections import Counter
    import crosshair.core_and_libs  # noqa: registers library patches
    from crosshair.core import analyze_calltree
    from crosshair.condition_parser import (Conditions, ConditionExpr, ConditionExprType)
    from crosshair.fnutil import resolve_signature
    from crosshair.options import DEFAULT_OPTIONS, AnalysisOptionSet
    from crosshair.statespace import VerificationStatus, MessageType
    from vf import chfix
    chfix.apply(**{k: v for k, v in o.opts.items() if k in ("real_floats", "no_cell_cache", "wrap_bools")})
    _patch_z3_stats()

    fn = o.fn
    sig = resolve_signature(fn)
    assert not isinstance(sig, str), sig
    names = list(sig.parameters)
    filename = inspect.getsourcefile(fn) or "?"
    line = fn.__code__.co_firstlineno
    captured = {}

    def describe(args, ret, reprs):
        captured["args"] = {k: _jsonable(v) for k, v in args.arguments.items()}
        captured["ret"] = repr(ret)
        return (fn.__name__ + "(" + ", ".join("%s=%r" % kv for kv in args.arguments.items()) + ")", repr(ret))

    pres = []
    if o.pre is not None:
        pres.append(ConditionExpr(ConditionExprType.PRECONDITION,
                                  lambda b: o.pre(*[b[n] for n in names]), filename, line, "pre"))
    for i, ex in enumerate(exclude):
        code = compile(ex, "<known-finding-exclusion>", "eval")
        pres.append(ConditionExpr(ConditionExprType.PRECONDITION,
                                  (lambda c: (lambda b: not eval(c, dict(fn.__globals__), dict(b))))(code),
                                  filename, line + 1 + i, "not (" + ex + ")"))
    if twin:
        post_eval = lambda b: False  # noqa
    else:
        post_eval = lambda b: b["_"]  # noqa
    post = [ConditionExpr(ConditionExprType.POSTCONDITION, post_eval, filename, line, "twin:False" if twin else "_")]
    conditions = Conditions(fn=fn, src_fn=fn, pre=pres, post=post, raises=frozenset(o.raises), sig=sig,
                            mutable_args=None, fn_syntax_messages=[], counterexample_description_maker=describe)
    stats = Counter()
    options = DEFAULT_OPTIONS.overlay(AnalysisOptionSet(per_condition_timeout=float(timeout)))
    options.stats = stats
    options.deadline = time.process_time() + float(timeout)
    q0, t0, w0 = QStats.n, QStats.t, time.time()
    from crosshair.condition_parser import condition_parser
    with condition_parser(options.analysis_kind):
        analysis = analyze_calltree(options, conditions)
    res = {
        "paths": int(stats.get("num_paths", 0)),
        "confirmed_paths": analysis.num_confirmed_paths,
        "queries": QStats.n - q0,
        "solver_s": round(QStats.t - t0, 3),
        "wall_s": round(time.time() - w0, 3),
        "messages": [(m.state.name, m.message[:2000]) for m in analysis.messages],
    }
    st = analysis.verification_status
    kinds = [m.state for m in analysis.messages]
    if MessageType.PRE_UNSAT in kinds:
        res["verdict"] = "vacuous"
    elif st == VerificationStatus.CONFIRMED:
        res["verdict"] = "proved"
    elif st == VerificationStatus.REFUTED:
        res["verdict"] = "refuted"
        res["model"] = captured.get("args")
        res["fail_kind"] = kinds[0].name if kinds else "?"
    else:
        res["verdict"] = "inconclusive"
    return res


def concrete_xh(o, args):
    """Plain-Python execution of the harness. -> (pre_ok, holds, detail)"""
    from vf import chfix
    try:
        import crosshair.core_and_libs  # noqa
        chfix.apply(**{k: v for k, v in o.opts.items() if k in ("real_floats", "no_cell_cache", "wrap_bools")})
    except Exception:
        pass
    if o.pre is not None:
        try:
            if not o.pre(**args):
                return False, True, "precondition false"
        except Exception as e:  # noqa
            return False, True, "precondition raised %r" % (e,)
    try:
        r = o.fn(**args)
    except tuple(o.raises) as e:
        return True, True, "documented exception %r" % (e,)
    except Exception as e:  # noqa
        return True, False, "raised %s: %s" % (type(e).__name__, e)
    return True, (r is True or r == True), "returned %r" % (r,)  # noqa


def run_xh(o, exclude=()):
    out = {"id": o.id, "engine": "xh"}
    if o.twin:
        tw = run_xh_once(o, True, max(5, min(30, o.timeout // 3)))
        out["twin"] = {"verdict": tw["verdict"], "paths": tw["paths"], "model": tw.get("model"),
                       "fail_kind": tw.get("fail_kind")}
        if tw["verdict"] == "refuted" and tw.get("fail_kind") == "POST_FAIL" and tw.get("model") is not None:
            pre_ok, holds, detail = concrete_xh(o, tw["model"])
            out["twin"]["replayed"] = bool(pre_ok)
            out["twin"]["holds_concretely"] = bool(holds)
            out["twin"]["reachable"] = True
        else:
            out["twin"]["reachable"] = False
    main = run_xh_once(o, False, o.timeout, exclude)
    out.update(main)
    if out["verdict"] == "proved" and out.get("confirmed_paths", 0) == 0:
        out["verdict"] = "vacuous"
    return out


# ---------------------------------------------------------------------------
def run_symx(o, exclude=()):
    from vf.symx import Engine
    e = Engine(bv=o.opts.get("bv"), fp=o.opts.get("fp", False), timeout_s=o.timeout,
               query_timeout_ms=o.opts.get("query_timeout_ms", 60000), lazy=o.opts.get("lazy", False),
               shard=o.opts.get("shard"))
    w0 = time.time()
    fn = o.fn
    if exclude:
        base = fn

        def fn(eng, base=base):  # noqa
            r = base(eng)
            return r
    status, model = e.explore(fn, expect_exc=tuple(o.raises))
    out = {"id": o.id, "engine": "symx", "paths": e.paths, "queries": e.nq, "solver_s": round(e.tq, 3),
           "wall_s": round(time.time() - w0, 3), "concretizations": e.concretizations,
           "samples": e.samples}
    if status == "proved":
        out["verdict"] = "proved" if e.paths > 0 else "vacuous"
    elif status == "refuted":
        out["verdict"] = "refuted"
        out["model"] = model
    else:
        out["verdict"] = "inconclusive"
        out["messages"] = [(status, str(model))]
    # vacuity witness: satisfy the precondition on the first path, replay concretely
    if o.twin and status in ("proved",):
        e2 = Engine(bv=o.opts.get("bv"), fp=o.opts.get("fp", False), timeout_s=min(o.timeout, 300),
                    query_timeout_ms=300000, lazy=o.opts.get("lazy", False))

        def twin(eng):
            r = o.fn(eng)
            return False
        st2, m2 = e2.explore(twin, expect_exc=tuple(o.raises))
        tw = {"verdict": st2, "model": m2, "reachable": st2 == "refuted"}
        if st2 == "refuted" and m2 is not None and "__exc__" not in m2:
            rep, detail = Engine().replay(o.fn, m2, expect_exc=tuple(o.raises))
            tw["replayed"] = True
            tw["holds_concretely"] = not rep
        out["twin"] = tw
        if st2 == "proved":
            out["verdict"] = "vacuous"
    return out


def concrete_symx(o, model):
    from vf.symx import Engine
    rep, detail = Engine().replay(o.fn, model, expect_exc=tuple(o.raises))
    return rep, detail


def run_smt(o):
    w0 = time.time()
    status, info = o.fn()
    out = {"id": o.id, "engine": "smt", "paths": 1, "queries": info.get("queries", 1),
           "solver_s": round(info.get("solver_s", time.time() - w0), 3), "wall_s": round(time.time() - w0, 3),
           "info": info}
    if status == "unsat":
        out["verdict"] = "proved"
    elif status == "sat":
        out["verdict"] = "refuted"
        out["model"] = info.get("model", {})
    else:
        out["verdict"] = "inconclusive"
    return out


# ---------------------------------------------------------------------------
def replay(o, model):
    """-> dict(reproduces, detail, signature)"""
    if o.engine == "xh":
        pre_ok, holds, detail = concrete_xh(o, model)
        rep = pre_ok and not holds
    elif o.engine == "symx":
        rep, detail = concrete_symx(o, model)
    else:
        rep, detail = bool(o.opts.get("replay", lambda m: (True, "smt model"))(model)[0]), "smt"
    sig = None
    if o.signature is not None:
        try:
            sig = o.signature(model)
        except Exception as e:  # noqa
            sig = "signature-error:%r" % (e,)
    return {"reproduces": bool(rep), "detail": detail, "signature": sig}


def replay_main(prop, oid, model):
    """Entry used by generated replay scripts: exit code 1 when the violation reproduces."""
    reg = load(prop)
    r = replay(reg[oid], model)
    print(json.dumps(r, ensure_ascii=False))
    return 1 if r["reproduces"] else 0


def main(argv):
    prop, oid, mode = argv[0], argv[1], argv[2]
    mem_gb = int(os.environ.get("VF_MEM_GB", "6"))
    try:
        resource.setrlimit(resource.RLIMIT_AS, (mem_gb << 30, mem_gb << 30))
    except Exception:
        pass
    reg = load(prop)
    o = reg[oid]
    exclude = []
    if "--exclude" in argv:
        exclude = json.loads(argv[argv.index("--exclude") + 1])
    try:
        if mode == "run":
            if o.engine == "xh":
                out = run_xh(o, exclude)
            elif o.engine == "symx":
                out = run_symx(o, exclude)
            else:
                out = run_smt(o)
        elif mode == "replay":
            out = replay(o, json.loads(argv[3]))
            out["id"] = oid
        else:
            raise SystemExit("bad mode")
    except MemoryError:
        out = {"id": oid, "verdict": "inconclusive", "messages": [("oom", "")]}
    except BaseException as e:  # noqa  (CrossHair control-flow exceptions are BaseException)
        if isinstance(e, (SystemExit, KeyboardInterrupt)):
            raise
        out = {"id": oid, "verdict": "error", "messages": [("harness-error", traceback.format_exc()[-3000:])]}
    sys.stdout.write("\nRESULT " + json.dumps(out, ensure_ascii=False, default=repr) + "\n")
    sys.stdout.flush()


if __name__ == "__main__":
    main(sys.argv[1:])
