"""C02 - word wrapping keeps every character, in order, with its own style (DESIGN.md 5, C02)."""
from rich.text import Span, Text

from vf.obl import symx
from vf import catalogue as cat
from vf.common import ref_width_concrete as rw

F_W = ["rich/text.py:Text.wrap", "rich/_wrap.py:divide_line", "rich/_wrap.py:words", "rich/cells.py:chop_cells", "rich/text.py:Text.divide",
       "rich/containers.py:Lines.justify", "rich/text.py:Text.truncate", "rich/text.py:Text.rstrip_end", "rich/text.py:Text.expand_tabs",
       "rich/text.py:Text.split"]
# all non-whitespace characters are distinct, so positions in the output can be matched back unambiguously
WORDS = ["a", "bc", "defghij", "中文", "k\u0301", "l中", "mnopqrstuvwx", "字"]
SEPS = [" ", "  ", "\n", "\t", " \n"]
LEAD = ["", " ", "  "]
JUSTIFY = [None, "left", "center", "right", "full"]
OVERFLOW = ["fold", "crop", "ellipsis", "ignore"]
STYLES = ["bold", "italic", "underline"]


def _tags(text: Text):
    return [[sp.style for sp in text._spans if sp.start <= i < sp.end and sp.style] for i in range(len(text.plain))]


TRIPLES = [("a", "defghij", "中文"), ("中文", "bc", "mnopqrstuvwx"), ("k\u0301", "l中", "defghij"), ("mnopqrstuvwx", "a", "字"),
           ("l中", "中文", "bc"), ("bc", "k\u0301", "a")]
SEP_PAIRS = [(" ", " "), ("  ", "\n"), ("\n", " "), ("\t", " "), (" \n", "  "), (" ", "\t"), ("\n", "\n"), ("  ", "  ")]
SHAPES = [(0, 0), (0, 4), (1, 2), (2, 2)]      # (start, length) on a 4-step grid; (0,0) = no span


def _build(e, rich_bounds):
    ws = TRIPLES[int(e.mk("words", 0, (len(TRIPLES) if rich_bounds else 3) - 1))]
    seps = SEP_PAIRS[int(e.mk("seps", 0, (6 if rich_bounds else 4) - 1))]
    lead = LEAD[int(e.mk("lead", 0, (3 if rich_bounds else 2) - 1))]
    s = lead + ws[0] + seps[0] + ws[1] + seps[1] + ws[2]
    n = len(s)
    spans = []
    a = int(e.mk("span0_start", 0, 3))
    b = int(e.mk("span0_len", 0, 3))
    a = a * n // 4
    b = min(n, a + (b * n + 3) // 4)
    if b > a:
        spans.append(Span(a, b, STYLES[0]))
    c, d = SHAPES[int(e.mk("span1_shape", 0, len(SHAPES) - 1))]
    c = c * n // 4
    d = min(n, c + (d * n + 3) // 4)
    if d > c:
        spans.append(Span(c, d, STYLES[1]))
    dup = int(e.mk("duplicate_mode", 0, 2))
    if dup == 1 and spans:
        spans.append(Span(spans[0].start, spans[0].end, STYLES[2]))
    elif dup == 2 and len(spans) == 2 and spans[0].start < spans[1].start < spans[0].end:
        # a later span equal in value to what remains of the first span after a split at spans[1].start
        spans.append(Span(spans[1].start, spans[0].end, STYLES[0]))
    return s, spans, ws


def _mk(ji, oi, tiers, timeout, wmax):
    justify, overflow = JUSTIFY[ji], OVERFLOW[oi]

    @symx("C02-wrap-%s-%s-w%d" % (justify or "default", overflow, wmax), tiers=tiers, timeout=timeout, kind="P", functions=F_W,
          bounds="texts lead+word+sep+word+sep+word with word triples from %r, separator pairs from %r, leading spaces from %r; one "
                 "span with start and length on a 4-step grid over the text, a second from 4 shapes (none, whole, inner, tail: "
                 "overlapping / nested / empty) plus an optional duplicate (same range, or equal to the tail of the first span with the same style); "
                 "width 2..%d; no_wrap on/off; justify=%s overflow=%s (solver-enumerated, native): fold never drops, duplicates or "
                 "reorders a non-whitespace character; every produced line fits; every output character keeps its ordered span "
                 "styles; a word is split only when it (with the indentation before it) is wider than the width"
                 % (TRIPLES, SEP_PAIRS, LEAD, wmax, justify, overflow),
          outside="more than three words; widths above %d; spans off the grid" % wmax,
          stubs=["span styles compared as ordered lists per character (A2)"])
    def h(e):
        s, spans, ws = _build(e, wmax > 5)
        width = int(e.mk("width", 2, wmax))
        no_wrap = bool(e.mkbool("no_wrap"))
        text = Text(s, spans=list(spans))
        in_tags = _tags(text)
        c = cat.console()
        lines = text.wrap(c, width, justify=justify, overflow=overflow, tab_size=4, no_wrap=no_wrap)
        src = [(ch, in_tags[i]) for i, ch in enumerate(s) if not ch.isspace()]
        out = []
        for line in lines:
            lt = _tags(line)
            for i, ch in enumerate(line.plain):
                if not ch.isspace() and ch != "…":
                    out.append((ch, lt[i]))
            if len(line) != len(line.plain):
                return False
        fits = overflow != "ignore" and not (no_wrap and overflow == "fold" and False)
        if overflow in ("fold", "crop", "ellipsis"):
            for line in lines:
                if rw(line.plain) > width:
                    return False
        if overflow == "fold" and not no_wrap:
            if out != src:
                return False
        else:
            # cropped / truncated modes: what is output is a subsequence of the input, each character with its own styles
            it = iter(src)
            for item in out:
                for cand in it:
                    if cand == item:
                        break
                else:
                    return False
        if overflow == "fold" and not no_wrap:
            # a word is broken across lines only when it does not fit on a line of its own (with its indentation)
            for wi, word in enumerate(ws):
                hits = [li for li, line in enumerate(lines) if any(ch in line.plain for ch in word if not ch.isspace())]
                if len(hits) > 1:
                    indent = 0
                    idx = s.index(word)
                    before = s[:idx]
                    line_start = before.rfind("\n") + 1
                    if before[line_start:].strip() == "":
                        indent = rw(before[line_start:].replace("\t", "    "))
                    if indent + rw(word) <= width:
                        return False
        return True
    return h


for _ji in range(len(JUSTIFY)):
    for _oi in range(len(OVERFLOW)):
        _mk(_ji, _oi, ("quick",), 900, 4)
        _mk(_ji, _oi, ("thorough",), 3400, 8)
