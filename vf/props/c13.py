"""C13 - cell-width arithmetic and line shaping (DESIGN.md 5, C13)."""
import z3

from rich import cells
from rich._cell_widths import CELL_WIDTHS
from rich.segment import Segment
from rich.style import Style

from vf.obl import symx, xh
from vf.common import SIGMA, SIGMA_NL, WIDE, ZERO, over, ref_width, table_width
from vf.symx import SymBool, SymInt, sym_and

F_CELLS = ["rich/cells.py:_get_codepoint_cell_size", "rich/cells.py:get_character_cell_size",
           "rich/_cell_widths.py:CELL_WIDTHS"]


# --- a. table lookup for every code point (S, symx) --------------------------
def _spec(e, cp):
    """Reference width: linear scan of the table, as an If-term (symbolic) or directly (replay)."""
    if isinstance(cp, int):
        return table_width(cp)
    spec = e.memo.get("spec")
    if spec is None:
        spec = e.val(1)
        for (s, en, w) in reversed(CELL_WIDTHS):
            spec = z3.If(z3.And(cp.z >= s, cp.z <= en), e.val(0 if w == -1 else w), spec)
        e.memo["spec"] = spec
    return SymInt(e, spec)


@symx("C13-a-codepoint-table", timeout=600, kind="S", functions=F_CELLS,
      bounds="every code point 0..0x10FFFF (complete)", outside="nothing for the table lookup",
      stubs=["S2: lru_cache bypassed via __wrapped__"])
def c13_a_table(e):
    cp = e.mk("cp", 0, 0x10FFFF)
    got = cells._get_codepoint_cell_size.__wrapped__(cp)
    again = cells._get_codepoint_cell_size.__wrapped__(cp)
    return sym_and(got == _spec(e, cp), again == got)


@symx("C13-a-character-size", timeout=600, kind="S", functions=F_CELLS,
      bounds="every code point 0..0x10FFFF through get_character_cell_size (ASCII shortcut included)",
      stubs=["ord() in rich.cells replaced by identity so the code point itself is the symbolic input",
             "S2: lru_cache on _get_codepoint_cell_size replaced by the undecorated function"])
def c13_a_char(e):
    cp = e.mk("cp", 0, 0x10FFFF)
    saved = cells._get_codepoint_cell_size
    cells.ord = lambda ch: ch
    cells._get_codepoint_cell_size = saved.__wrapped__
    try:
        got = cells.get_character_cell_size(cp)
    finally:
        del cells.ord
        cells._get_codepoint_cell_size = saved
    return got == _spec(e, cp)


@symx("C13-a-table-sorted", timeout=120, kind="P", functions=["rich/_cell_widths.py:CELL_WIDTHS"],
      bounds="all adjacent entry pairs (index enumerated by the solver)", twin=True)
def c13_a_sorted(e):
    # the binary search is only correct on sorted, disjoint ranges: start<=end<next start, widths in {-1,0,1,2}
    i = e.mk("i", 0, len(CELL_WIDTHS) - 2)
    k = int(i)  # concretised by the engine: enumerates every index
    s, en, w = CELL_WIDTHS[k]
    s2, en2, w2 = CELL_WIDTHS[k + 1]
    return s <= en < s2 <= en2 and w in (-1, 0, 1, 2) and w2 in (-1, 0, 1, 2)


# --- b. set_cell_size (S, xh) ------------------------------------------------
def _mk_set_cell_size(n_len, tiers, timeout):
    def pre(s: str, n: int) -> bool:
        return len(s) == n_len and over(s, SIGMA) and 0 <= n <= 2 * n_len + 2

    @xh("C13-b-set_cell_size-len%d" % n_len, pre=pre, tiers=tiers, timeout=timeout, kind="S",
        functions=["rich/cells.py:set_cell_size", "rich/cells.py:cell_len"] + F_CELLS,
        bounds="len(s)==%d over {a,b,space,U+4E2D,U+0301}, 0<=n<=%d" % (n_len, 2 * n_len + 2),
        outside="longer strings, other characters (table covered by C13-a)", stubs=["S1"])
    def h(s: str, n: int) -> bool:
        r = cells.set_cell_size(s, n)
        if ref_width(r) != n:
            return False
        # result = prefix of s followed only by spaces
        k = 0
        while k < len(r) and k < len(s) and r[k] == s[k]:
            k += 1
        for c in r[k:]:
            if c != " ":
                return False
        # cell_len agrees with the reference on both strings
        return cells.cell_len(r) == n and cells.cell_len(s) == ref_width(s)
    return h


for _n, _t, _to in [(0, ("quick", "thorough"), 30), (1, ("quick", "thorough"), 30), (2, ("quick", "thorough"), 60),
                    (3, ("quick", "thorough"), 120), (4, ("thorough",), 400), (5, ("thorough",), 1500)]:
    _mk_set_cell_size(_n, _t, _to)


# --- c. chop_cells (S, xh) -----------------------------------------------------
def _mk_chop(n_len, tiers, timeout):
    def pre(s: str, w: int, position: int) -> bool:
        return len(s) == n_len and over(s, SIGMA) and 2 <= w <= 7 and 0 <= position <= w

    @xh("C13-c-chop_cells-len%d" % n_len, pre=pre, tiers=tiers, timeout=timeout, kind="S",
        functions=["rich/cells.py:chop_cells"] + F_CELLS,
        bounds="len(s)==%d over Sigma, 2<=width<=7, 0<=position<=width" % n_len, stubs=["S1"])
    def h(s: str, w: int, position: int) -> bool:
        pieces = cells.chop_cells(s, w, position)
        if "".join(pieces) != s:
            return False
        first = True
        for p in pieces:
            if ref_width(p) + (position if first else 0) > w:
                return False
            first = False
        return True
    return h


for _n, _t, _to in [(1, ("quick", "thorough"), 30), (2, ("quick", "thorough"), 60), (3, ("quick", "thorough"), 120),
                    (4, ("thorough",), 400), (5, ("thorough",), 1500)]:
    _mk_chop(_n, _t, _to)
