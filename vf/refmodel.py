"""Reference models written for this task, independent of Rich's implementation (DESIGN.md 2.4)."""

TAG_START = "abcdefghijklmnopqrstuvwxyz#/"


class RefMarkupError(Exception):
    pass


def markup(s, norm=None):
    """Hand-written scanner + tag stack for console markup.

    Returns (plain, tags) where tags[i] is the list of open tag strings (opening order) covering plain[i].
    Raises RefMarkupError when a closing tag has nothing to close.
    `norm` normalises tag names (default: strip) - see the alphabet note in C04.
    """
    if norm is None:
        norm = lambda x: x.strip()  # noqa: E731
    plain = []
    tags = []
    stack = []          # (normalised name, tag string)
    i = 0
    n = len(s)

    def emit(text):
        for ch in text:
            plain.append(ch)
            tags.append([t for _, t in stack])

    while i < n:
        j = i
        while j < n and s[j] == "\\":
            j += 1
        k = -1
        if j < n and s[j] == "[" and j + 1 < n and s[j + 1] in TAG_START:
            k = j + 2
            while k < n and s[k] != "]" and s[k] != "\n":
                k += 1
            if not (k < n and s[k] == "]"):
                k = -1
        if k < 0:
            # no tag here: the backslashes (if any) and the next character are literal
            if j > i:
                emit(s[i:j])
                i = j
            else:
                emit(s[i])
                i += 1
            continue
        run = j - i
        tag_text = s[j + 1:k]
        emit("\\" * (run // 2))
        if run % 2 == 1:
            emit("[" + tag_text + "]")
            i = k + 1
            continue
        name, eq, params = tag_text.partition("=")
        if name.startswith("/"):
            style_name = name[1:].strip()
            if style_name:
                style_name = norm(style_name)
                found = -1
                for idx in range(len(stack) - 1, -1, -1):
                    if stack[idx][0] == style_name:
                        found = idx
                        break
                if found < 0:
                    raise RefMarkupError(tag_text)
                stack.pop(found)
            else:
                if not stack:
                    raise RefMarkupError(tag_text)
                stack.pop()
        else:
            nm = norm(name)
            stack.append((nm, nm if not eq else nm + " " + params))
        i = k + 1
    return "".join(plain), tags
