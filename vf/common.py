"""Shared helpers for harnesses: alphabets and the reference cell-width oracle."""
from rich._cell_widths import CELL_WIDTHS

WIDE = "\u4e2d"      # 中, 2 cells
ZERO = "\u0301"      # combining acute accent, 0 cells
SIGMA = "ab " + WIDE + ZERO
SIGMA_NL = SIGMA + "\n"


def table_width(cp: int) -> int:
    """Linear scan of the width table (independent of rich.cells' binary search)."""
    for start, end, width in CELL_WIDTHS:
        if start <= cp <= end:
            return 0 if width == -1 else width
    return 1


# per-character reference widths for the alphabets used by the harnesses
WMAP = {c: table_width(ord(c)) for c in SIGMA + "\n\t[]\\/=#<>&|-x01c:\x1b"}
assert WMAP[WIDE] == 2 and WMAP[ZERO] == 0 and WMAP["a"] == 1


def ref_width(s) -> int:
    """Reference width of a (possibly symbolic) string over the harness alphabets."""
    total = 0
    for c in s:
        if c == WIDE:
            total += 2
        elif c == ZERO:
            pass
        else:
            total += 1
    return total


def ref_width_concrete(s: str) -> int:
    return sum(table_width(ord(c)) for c in s)


def over(s, alphabet: str) -> bool:
    """Every character of s is in alphabet (traceable by CrossHair)."""
    for c in s:
        if c not in alphabet:
            return False
    return True


def unwrapped(f):
    """The function under an lru_cache wrapper (or f itself when chfix already removed the wrapper)."""
    return getattr(f, "__wrapped__", f)


def style_parse(s):
    from rich.style import Style
    w = getattr(Style.parse, "__wrapped__", None)
    return w(Style, s) if w is not None else Style.parse(s)


def style_normalize(s):
    from rich.style import Style
    w = getattr(Style.normalize, "__wrapped__", None)
    return w(Style, s) if w is not None else Style.normalize(s)


def color_parse(s):
    from rich.color import Color
    w = getattr(Color.parse, "__wrapped__", None)
    return w(Color, s) if w is not None else Color.parse(s)


def pin(x, lo: int, hi: int) -> int:
    """Kind P: turn a symbolic int in [lo, hi] into a concrete one by binary search on branches
    (a balanced decision tree: log2(n) decisions per value instead of CrossHair's linear realize chain)."""
    while lo < hi:
        mid = (lo + hi) // 2
        if x <= mid:
            hi = mid
        else:
            lo = mid + 1
    return lo


def pinb(x) -> bool:
    return True if x else False


def native(fn, *args):
    """Run fn(*args) as plain CPython (no symbolic tracing).  Only for kind-P obligations whose inputs were all pinned:
    the solver enumerates the input space, each value is then executed natively on the real code."""
    try:
        from crosshair.tracers import NoTracing, is_tracing
    except Exception:  # pragma: no cover
        return fn(*args)
    if not is_tracing():
        return fn(*args)
    with NoTracing():
        return fn(*args)
