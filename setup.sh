#!/bin/bash
# Build the overlay venv offline: /venv (repo deps, rich from /repo) + crosshair/z3 from the wheelhouse.
set -e
cd "$(dirname "$0")"
if [ -x .venv/bin/python ] && .venv/bin/python -c "import crosshair, z3, rich" 2>/dev/null; then
  echo "venv ok"; exit 0
fi
rm -rf .venv
/venv/bin/python -m venv .venv
SP=$(.venv/bin/python -c "import sysconfig; print(sysconfig.get_paths()['purelib'])")
echo "import site; site.addsitedir('/venv/lib/python3.12/site-packages')" > "$SP/_overlay.pth"
PIP_NO_INDEX=1 .venv/bin/pip install -q --no-index --find-links /opt/veriftools/wheels crosshair-tool z3-solver
.venv/bin/python -c "import crosshair, z3, rich; print('venv built', crosshair.__version__, z3.get_version_string(), rich.__file__)"
