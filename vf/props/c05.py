"""C05 - text editing operations keep characters and styles attached (DESIGN.md 5, C05).

One inductive step per operation: pre-state = any Text (from a catalogue of strings x two solver-chosen spans, optionally
assembled from several pieces), one operation with solver-chosen arguments inside / at / beyond the ends, post-state
compared with a reference list of (character, ordered tags).  All integers are concretised by the engine (kind P);
each value combination then runs natively on the real Text code.
"""
from rich.text import Span, Text

from vf.obl import symx
from vf.common import ref_width_concrete

F_T = ["rich/text.py:Text.%s" % m for m in
       ["__init__", "append", "append_text", "assemble", "join", "split", "divide", "__getitem__", "pad", "pad_left",
        "pad_right", "align", "truncate", "right_crop", "set_length", "expand_tabs", "copy", "stylize", "copy_styles",
        "highlight_words", "plain", "_trim_spans", "render"]] + ["rich/control.py:strip_control_codes"]
STRINGS = ["", "a", "ab ", "a中b", "a\tb", " á", "a\nb", "ab\n"]
CTRL = "\x08\x0b\x0c\r"


# --- reference model ------------------------------------------------------------------------------------------
class Ref:
    """list of (char, [tags in application order])"""

    def __init__(self, cells=None):
        self.cells = list(cells or [])

    @staticmethod
    def of(s, spans=()):
        cells = [(c, []) for c in s if c not in CTRL]
        r = Ref(cells)
        for start, end, tag in spans:
            r.stylize(tag, start, end)
        return r

    @property
    def plain(self):
        return "".join(c for c, _ in self.cells)

    def stylize(self, tag, start, end):
        n = len(self.cells)
        for i in range(max(0, start), min(n, end)):
            self.cells[i] = (self.cells[i][0], self.cells[i][1] + [tag])

    def copy(self):
        return Ref([(c, list(t)) for c, t in self.cells])

    def __add__(self, o):
        return Ref(self.copy().cells + o.copy().cells)

    def slice(self, a, b):
        return Ref(self.copy().cells[a:b])


def tags_of(text: Text):
    """per character: ordered list of non-empty span styles covering it (application order = span order)"""
    out = []
    for i in range(len(text.plain)):
        out.append([sp.style for sp in text._spans if sp.start <= i < sp.end and sp.style != ""])
    return out


def same(text: Text, ref: Ref) -> bool:
    if text.plain != ref.plain:
        return False
    try:
        if len(text) != len(ref.plain):
            return False
    except ValueError:
        return False
    return tags_of(text) == [t for _, t in ref.cells]


_S1 = [(0, 0), (0, 9), (1, 2), (0, 1)]


_CUR = {"si": None}


def mk_pre(e, pieces=None):
    """A solver-chosen pre-state (Text, Ref)."""
    si = _CUR["si"]
    s = STRINGS[si]
    n = len(s)
    a = int(e.mk("s0_start", 0, n))
    b = int(e.mk("s0_end", 0, n + 1))
    spans = [(a, b, "t0")]
    c, d = _S1[int(e.mk("s1_choice", 0, len(_S1) - 1))]
    spans.append((c, d, "t1"))
    assembled = e.mkbool("assembled")
    if assembled and n >= 2:
        t = Text(s[:1])
        t.append(s[1:])
        for a, b, tag in spans:
            t.stylize(tag, a, b)
        ref = Ref.of(s)
        for a, b, tag in spans:
            if a < n and b > a:
                ref.stylize(tag, a, b)
    else:
        t = Text(s, spans=[Span(a, min(b, n), tag) for a, b, tag in spans if b > a and a < n])
        ref = Ref.of(s, [(a, b, tag) for a, b, tag in spans if b > a and a < n])
    return t, ref, n


_QUICK = (3, 6)


def _ob(name, bounds, per_string=True):
    def deco(fn):
        if not per_string:
            return symx("C05-" + name, timeout=600, kind="P", functions=F_T, bounds=bounds)(fn)
        for si in range(len(STRINGS)):
            def h(e, si=si):
                _CUR["si"] = si
                return fn(e)
            h.__name__ = fn.__name__
            symx("C05-%s-s%d" % (name, si), tiers=("quick", "thorough") if si in _QUICK else ("thorough",), timeout=900,
                 kind="P", functions=F_T,
                 bounds="pre-state: string %r x one span with every start/end in [0,len]/[0,len+1] x a second span from 4 shapes "
                        "(empty, whole, inner, first char) x built directly or assembled from two pieces; " % STRINGS[si] + bounds,
                 outside="strings outside the catalogue; more than two spans; histories follow by induction on the "
                         "invariant len(text)==len(text.plain) + reference agreement, which every obligation re-establishes",
                 stubs=["styles are opaque tags compared as ordered lists per character (A2)"])(h)
        return fn
    return deco


# --- construct ------------------------------------------------------------------------------------------------
@_ob("construct", "constructor over the %d catalogue strings with each stripped control character inserted at each position; also append(str, style)" % len(STRINGS), per_string=False)
def c05_construct(e):
    si = int(e.mk("string", 0, len(STRINGS) - 1))
    ci = int(e.mk("ctrl", 0, len(CTRL) - 1))
    s = STRINGS[si]
    pos = int(e.mk("pos", 0, len(s)))
    raw = s[:pos] + CTRL[ci] + s[pos:]
    t = Text(raw)
    ok = same(t, Ref.of(raw))
    t2 = Text("x")
    t2.append(raw, "k")
    r2 = Ref.of("x") + Ref.of(raw, [(0, 99, "k")])
    return ok and same(t2, r2) and same(Text(s), Ref.of(s))


@_ob("append-str", "append(str, style?) of a catalogue string, optionally containing a control character")
def c05_append_str(e):
    t, ref, n = mk_pre(e)
    add = STRINGS[int(e.mk("add", 0, len(STRINGS) - 1))]
    if e.mkbool("with_ctrl"):
        add = add[:1] + "\r" + add[1:]
    styled = e.mkbool("styled")
    t.append(add, "k" if styled else None)
    want = ref + Ref.of(add, [(0, 99, "k")] if styled else [])
    return same(t, want)


class _Hang(BaseException):
    pass


@_ob("append-text", "append(Text) / append_text(Text) / + of a second solver-chosen pre-state, with and without a base style, "
                    "and of the text itself (t.append(t), t.append_text(t), t + t)")
def c05_append_text(e):
    t, ref, n = mk_pre(e)
    how = int(e.mk("how", 0, 5))
    if how >= 3:
        # a text appended to itself (must terminate: one second is ~10^5 times what the operation needs)
        import signal

        def _alarm(*_a):
            raise _Hang()
        prev = signal.signal(signal.SIGALRM, _alarm)
        signal.setitimer(signal.ITIMER_REAL, 1.0)
        try:
            if how == 3:
                t.append(t)
                got = t
            elif how == 4:
                t.append_text(t)
                got = t
            else:
                got = t + t
        except _Hang:
            return False
        finally:
            signal.setitimer(signal.ITIMER_REAL, 0)
            signal.signal(signal.SIGALRM, prev)
        return same(got, ref + ref)
    s2 = ["", "x中", "y\tz", "w\n"][int(e.mk("string2", 0, 3))]
    a = int(e.mk("o_start", 0, 1))
    b = int(e.mk("o_end", 0, len(s2)))
    base = e.mkbool("base_style")
    spans = [Span(a, b, "u")] if b > a else []
    other = Text(s2, style="bs" if base else "", spans=list(spans))
    oref = Ref.of(s2, ([(0, 99, "bs")] if base else []) + [(a, b, "u")] * (1 if b > a else 0))
    if how == 0:
        t.append(other)
        got = t
    elif how == 1:
        t.append_text(other)
        got = t
    else:
        got = t + other
    return same(got, ref + oref) and same(other, Ref.of(s2, [(a, b, "u")] * (1 if b > a else 0)))


@_ob("assemble-join", "Text.assemble of (str, (str, style), Text) and sep.join of two pre-states")
def c05_assemble_join(e):
    t, ref, n = mk_pre(e)
    s2 = STRINGS[int(e.mk("string2", 0, len(STRINGS) - 1))]
    asm = Text.assemble(s2, (s2, "k"), t)
    ok = same(asm, Ref.of(s2) + Ref.of(s2, [(0, 99, "k")]) + ref)
    sep = ["", ",", "\n"][int(e.mk("sep", 0, 2))]
    other = Text(s2, spans=[Span(0, len(s2), "u")] if s2 else [])
    oref = Ref.of(s2, [(0, 99, "u")])
    joined = Text(sep).join([t, other, t])
    want = ref + Ref.of(sep) + oref + Ref.of(sep) + ref
    return ok and same(joined, want)


@_ob("split-divide", "split(separator in {newline, space, 'b'}, include_separator, allow_blank) and divide at two sorted offsets in [0,len]")
def c05_split_divide(e):
    t, ref, n = mk_pre(e)
    sep = ["\n", " ", "b"][int(e.mk("sep", 0, 2))]
    inc = e.mkbool("include_separator")
    blank = e.mkbool("allow_blank")
    parts = t.split(sep, include_separator=inc, allow_blank=blank)
    plain = ref.plain
    # reference split
    want = []
    start = 0
    if sep in plain:
        i = 0
        while True:
            j = plain.find(sep, i)
            if j < 0:
                want.append(ref.slice(i, len(plain)))
                break
            want.append(ref.slice(i, j + len(sep) if inc else j))
            i = j + len(sep)
        if not blank and plain.endswith(sep):
            want.pop()
        if inc:
            want = [w for w in want if w.cells or blank]
    else:
        want = [ref.copy()]
    ok = len(parts) == len(want) and all(same(p, w) for p, w in zip(parts, want))
    o1 = int(e.mk("off1", 0, n))
    o2 = int(e.mk("off2", 0, n))
    if o1 > o2:
        o1, o2 = o2, o1
    L = len(plain)
    o1, o2 = min(o1, L), min(o2, L)
    lines = t.divide([o1, o2])
    ok = ok and len(lines) == 3 and same(lines[0], ref.slice(0, o1)) and same(lines[1], ref.slice(o1, o2)) \
        and same(lines[2], ref.slice(o2, L))
    return ok and same(t, ref)


@_ob("independence", "results are values of their own: divide at 0, 1 or 2 offsets (given as list or iterator), split on newline, copy, "
                     "t[:] and t + '' - then every result is edited (pad_left, stylize, set_length) and the original must be unchanged; "
                     "then the original is edited and fresh results taken before must be unchanged")
def c05_independence(e):
    t, ref, n = mk_pre(e)
    L = len(ref.plain)
    o1 = min(int(e.mk("off1", 0, n)), L)
    o2 = min(int(e.mk("off2", 0, n)), L)
    if o1 > o2:
        o1, o2 = o2, o1
    noff = int(e.mk("n_offsets", 0, 2))
    offs = [o1, o2][:noff]

    def results():
        pieces = t.divide(iter(offs) if as_iter else list(offs))
        return list(pieces) + list(t.split("\n", allow_blank=True)) + [t.copy(), t[:], t + ""]

    as_iter = True if e.mkbool("offsets_as_iterator") else False
    bounds_ = [0] + offs + [L]
    want = [ref.slice(a, b) for a, b in zip(bounds_, bounds_[1:])]
    plain = ref.plain
    i = 0
    for j, ch in enumerate(plain):
        if ch == "\n":
            want.append(ref.slice(i, j))
            i = j + 1
    want.append(ref.slice(i, L))
    want += [ref.copy(), ref.copy(), ref.copy()]
    res = results()
    if len(res) != len(want) or not all(same(p, w) for p, w in zip(res, want)):
        return False
    for p in res:
        p.pad_left(1, "#")
        p.stylize("t3", 0, 1)
        p.set_length(2)
    if not same(t, ref):
        return False
    res = results()
    t.pad_left(2, "#")
    t.stylize("t3", 0, 3)
    t.set_length(3)
    return all(same(p, w) for p, w in zip(res, want))


@_ob("getitem", "t[i] for every index in [-len, len-1] and t[a:b] for a, b in [-4, 4], on a text with or without a base style "
                "(the characters of the result keep it: effective style = base style + spans)")
def c05_getitem(e):
    t, ref, n = mk_pre(e)
    base = "bs" if e.mkbool("base_style") else ""
    t.style = base
    L = len(ref.plain)
    ok = True
    for i in range(-L, L):          # every valid index, natively
        one = t[i]
        ok = ok and same(one, ref.slice(i, i + 1 if i != -1 else None)) and one.style == base
    a = int(e.mk("a", -4, 4))
    b = int(e.mk("b", -4, 4))
    got = t[a:b]
    return ok and same(got, ref.slice(a, b)) and got.style == base and same(t, ref) and t.style == base


@_ob("pad", "pad / pad_left / pad_right with counts -2..3 (a negative count pads nothing, as ch*count on a str) and pad characters "
            "space and '-', followed by a second editing step (append / set_length / another pad) so that a stale cached length shows")
def c05_pad(e):
    t, ref, n = mk_pre(e)
    k = int(e.mk("count", -2, 3))
    ch = " -"[int(e.mk("char", 0, 1))]
    how = int(e.mk("how", 0, 2))
    padding = Ref.of(ch * k)
    if how == 0:
        t.pad(k, ch)
        want = padding + ref + padding
    elif how == 1:
        t.pad_left(k, ch)
        want = padding + ref
    else:
        t.pad_right(k, ch)
        want = ref + padding
    if not same(t, want):
        return False
    nxt = int(e.mk("then", 0, 2))
    if nxt == 0:
        t.append("xy", "t2")
        want = want + Ref.of("xy", [(0, 2, "t2")])
    elif nxt == 1:
        L = len(want.plain) + 1
        t.set_length(L)
        want = want + Ref.of(" ")
    else:
        t.pad_right(1, "+")
        want = want + Ref.of("+")
    return same(t, want)


def _ref_truncate(ref, width, overflow, pad):
    """Reference for truncate on strings without newlines/tabs: cell widths via the width table."""
    plain = ref.plain
    w = ref_width_concrete(plain)
    out = ref.copy()
    if overflow != "ignore":
        if w > width:
            target = width - 1 if overflow == "ellipsis" else width
            cells = []
            used = 0
            for c, tg in out.cells:
                cw = ref_width_concrete(c)
                if used + cw > target:
                    break
                cells.append((c, tg))
                used += cw
            keep = len(cells)
            if used < target and keep < len(out.cells):
                cells.append((" ", out.cells[keep][1]))   # a cut wide character becomes one space, same style
            if overflow == "ellipsis":
                cells.append(("…", out.cells[len(cells)][1] if len(cells) < len(out.cells) else []))
            out = Ref(cells)
        if pad and w < width:
            out = out + Ref.of(" " * (width - w))
    return out


@_ob("truncate-align", "truncate(width 0..6, overflow in {crop, ellipsis, fold, ignore}, pad) followed by an append, and align(left/center/right, width 0..6) "
                       "on the catalogue strings without tab/newline")
def c05_truncate(e):
    t, ref, n = mk_pre(e)
    if "\t" in ref.plain or "\n" in ref.plain:
        return True
    width = int(e.mk("width", 0, 6))
    ovf = ["crop", "ellipsis", "fold", "ignore"][int(e.mk("overflow", 0, 3))]
    pad = e.mkbool("pad")
    t1 = t.copy()
    t1.truncate(width, overflow=ovf, pad=pad)
    want = _ref_truncate(ref, width, ovf, pad)
    # the ellipsis/space replacement characters: only their presence and the plain text are specified, and
    # "every surviving character keeps its style": compare tags on the surviving prefix only
    ok = t1.plain == want.plain and len(t1) == len(want.plain)
    keep = 0
    while keep < len(want.cells) and keep < len(ref.cells) and want.cells[keep][0] == ref.cells[keep][0]:
        keep += 1
    ok = ok and tags_of(t1)[:keep] == [tg for _, tg in want.cells[:keep]]
    # a second editing step on the truncated text: what is appended afterwards carries only its own style (no span of the
    # truncated text may reach beyond its end)
    t1.append("xy", "t2")
    ok = ok and t1.plain == want.plain + "xy" and len(t1) == len(want.plain) + 2 and tags_of(t1)[len(want.plain):] == [["t2"], ["t2"]]
    al = ["left", "center", "right"][int(e.mk("align", 0, 2))]
    t2 = t.copy()
    t2.align(al, width)
    w = ref_width_concrete(ref.plain)
    if w <= width:
        extra = width - w
        left = {"left": 0, "center": extra // 2, "right": extra}[al]
        want2 = Ref.of(" " * left) + ref + Ref.of(" " * (extra - left))
        ok = ok and same(t2, want2)
    else:
        ok = ok and ref_width_concrete(t2.plain) == width and len(t2) == len(t2.plain)
    return ok and same(t, ref)


@_ob("crop-setlength", "right_crop(amount 0..len+2) and set_length(0..len+3)")
def c05_crop(e):
    t, ref, n = mk_pre(e)
    L = len(ref.plain)
    amount = int(e.mk("amount", 0, 6))
    t1 = t.copy()
    t1.right_crop(amount)
    ok = same(t1, ref.slice(0, max(0, L - amount)))
    new_len = int(e.mk("new_length", 0, 7))
    t2 = t.copy()
    t2.set_length(new_len)
    want = ref.slice(0, new_len) + Ref.of(" " * max(0, new_len - L))
    return ok and same(t2, want)


@_ob("expand-tabs", "expand_tabs(tab_size 1..4) on every pre-state (only 'a<TAB>b' contains a tab) plus two extra tabbed strings")
def c05_tabs(e):
    t, ref, n = mk_pre(e)
    ts = int(e.mk("tab_size", 1, 4))
    extra = ["\t", "ab\tc\t\nx\ty"][int(e.mk("extra", 0, 1))]
    t.append(extra, "k")
    ref = ref + Ref.of(extra, [(0, 99, "k")])
    t.expand_tabs(ts)
    # reference: each tab becomes 1..tab_size spaces up to the next tab stop, counted per line; the first replacement
    # space keeps the tab's style, the others are unstyled padding
    cells = []
    col = 0
    for c, tg in ref.cells:
        if c == "\t":
            cells.append((" ", tg))
            col += 1
            while col % ts:
                cells.append((" ", []))
                col += 1
        else:
            cells.append((c, tg))
            col = 0 if c == "\n" else col + 1
    want = Ref(cells)
    return t.plain == want.plain and len(t) == len(want.plain) and \
        [tg for (c, tg), (c0, _) in zip(zip(t.plain, tags_of(t)), want.cells) if c0 != " "] == \
        [tg for c0, tg in want.cells if c0 != " "]


@_ob("styling-only", "copy, stylize(style, start, end) with start/end in [-len-1, len+1] or None, copy_styles, highlight_words: "
                     "characters never change; stylize adds the tag exactly on [start, end)")
def c05_styling(e):
    t, ref, n = mk_pre(e)
    L = len(ref.plain)
    c = t.copy()
    ok = same(c, ref) and c is not t
    a = int(e.mk("start", -5, 5))
    b = int(e.mk("end", -5, 7))     # 7 encodes None
    t.stylize("k", a, None if b == 7 else b)
    sa = a + L if a < 0 else a
    sb = L if b == 7 else (b + L if b < 0 else b)
    want = ref.copy()
    if not (sa >= L or sb <= sa):
        want.stylize("k", max(sa, 0) if sa >= 0 else sa, sb)
    ok = ok and same(t, want)
    t.copy_styles(c)
    t.highlight_words(["a", "b "], "hw")
    return ok and t.plain == ref.plain and len(t) == L


# --- divide / slice with symbolic offsets and symbolic spans (S, CrossHair) ---------------------------------------------------
from vf.obl import xh  # noqa: E402

_DIV_PLAIN = "ab中d"


def _pre_div(a: int, b: int, o1: int, o2: int) -> bool:
    n = len(_DIV_PLAIN)
    return 0 <= a <= b <= n and 0 <= o1 <= o2 <= n


@xh("C05-divide-symbolic-offsets", pre=_pre_div, timeout=900, kind="S", functions=["rich/text.py:Text.divide", "rich/text.py:Span.split"],
    stubs=["S2", "S4"],
    bounds="Text('ab<wide>d') with a fixed span (1,3) and a span whose start/end are symbolic integers (0<=start<=end<=4) "
           "divided at two symbolic offsets 0<=o1<=o2<=4: the three pieces concatenate to the text, and every character keeps exactly "
           "the ordered span styles it had",
    outside="longer strings; more than two spans or offsets (the enumerated C05/C02 obligations cover other strings)")
def c05_divide_sym(a: int, b: int, o1: int, o2: int) -> bool:
    c, d = 1, 3
    t = Text(_DIV_PLAIN, spans=[Span(a, b, "s1"), Span(c, d, "s2")])
    lines = t.divide([o1, o2])
    if len(lines) != 3:
        return False
    starts = [0, o1, o2]
    pos = 0
    for line, start in zip(lines, starts):
        for i in range(len(line.plain)):
            g = pos
            if line.plain[i] != _DIV_PLAIN[g]:
                return False
            want = []
            if a <= g < b:
                want.append("s1")
            if c <= g < d:
                want.append("s2")
            got = [sp.style for sp in line._spans if sp.start <= i < sp.end]
            if got != want:
                return False
            pos += 1
        if len(line) != len(line.plain):
            return False
    return pos == len(_DIV_PLAIN)


# --- split on separators that are regex metacharacters ----------------------------------------------------------------
_SPECIAL_TEXTS = ["a.b+c", "x|y?z|", "(a)*b", "v1.2.30", "a\\b$c^"]
_SPECIAL_SEPS = [".", "+", "|", "?", "(", ")", "*", "$", "^", "\\", "b+", ".2"]


def _ref_split(plain, sep, inc, blank):
    parts = []
    i = 0
    while True:
        j = plain.find(sep, i)
        if j < 0:
            parts.append(plain[i:])
            break
        parts.append(plain[i:j + len(sep)] if inc else plain[i:j])
        i = j + len(sep)
    if sep in plain and not blank and plain.endswith(sep):
        parts.pop()
    if inc:
        parts = [p for p in parts if p or blank]
    return parts


@symx("C05-split-special-separators", timeout=600, kind="P", functions=["rich/text.py:Text.split", "rich/text.py:Text.divide"],
      bounds="Text.split over %d texts x %d separators that are regular-expression metacharacters (or contain one) x "
             "include_separator x allow_blank, one span over the whole text: the pieces are those of the same split on the plain "
             "string, lengths consistent, every character keeps the span" % (len(_SPECIAL_TEXTS), len(_SPECIAL_SEPS)))
def c05_split_special(e):
    s = _SPECIAL_TEXTS[int(e.mk("text", 0, len(_SPECIAL_TEXTS) - 1))]
    sep = _SPECIAL_SEPS[int(e.mk("sep", 0, len(_SPECIAL_SEPS) - 1))]
    inc = bool(e.mkbool("include_separator"))
    blank = bool(e.mkbool("allow_blank"))
    t = Text(s, spans=[Span(0, len(s), "k")])
    parts = t.split(sep, include_separator=inc, allow_blank=blank)
    want = _ref_split(s, sep, inc, blank) if sep in s else [s]
    if [p.plain for p in parts] != want:
        return False
    for p in parts:
        if len(p) != len(p.plain) or tags_of(p) != [["k"]] * len(p.plain):
            return False
    return True
