for p in C16 C20 C10 C09 C18 C03 C15 C19 C01 C07 C08 C14 C06 C13 C04 C12 C05 C02; do
  start=$(date +%s)
  ./check $p --tier thorough --no-evidence > thorough_$p.log 2>&1
  echo "$p exit=$? wall=$(( $(date +%s) - start ))s $(grep SUMMARY thorough_$p.log | cut -c1-160)"
done
echo ALLDONE
