"""C12 - progress accounting, sequential histories (DESIGN.md 5, C12)."""
import io

from rich.console import Console
from rich.progress import Progress

from vf.obl import symx
from vf.symx import SymBool, SymInt, SymRat, sym_and, sym_implies, sym_not, sym_or

F_P = ["rich/progress.py:Progress.add_task", "rich/progress.py:Progress.advance", "rich/progress.py:Progress.update",
       "rich/progress.py:Progress.reset", "rich/progress.py:Progress.start_task", "rich/progress.py:Progress.stop_task",
       "rich/progress.py:Task.percentage", "rich/progress.py:Task.speed", "rich/progress.py:Task.time_remaining",
       "rich/progress.py:Task.finished"]
STUBS = ["S6: get_time returns solver-chosen non-decreasing instants (integers)",
         "Progress(disable=True, speed_estimate_period=30): no rendering; amounts and instants are mathematical integers "
         "(float rounding is outside the claim)", "S3"]


class Clock:
    def __init__(self, e):
        self.e, self.n, self.last = e, 0, 0

    def __call__(self):
        d = self.e.mk("dt%d" % self.n, 0, 40)
        self.n += 1
        self.last = self.last + d
        return self.last


def _concrete(x):
    return not isinstance(x, (SymInt, SymRat, SymBool))


def _truth(x):
    """bool() that forks on symbolic values."""
    return True if x else False


def _mk(nops, nonneg, tiers, timeout, first=None):
    @symx("C12-history-%dops-%s%s" % (nops, "nonneg" if nonneg else "anysign", "" if first is None else "-first%d" % first),
          tiers=tiers, timeout=timeout, kind="S",
          functions=F_P, stubs=STUBS, opts={"query_timeout_ms": 120000},
          bounds="two tasks (one started, one added with start=False); every sequence of %d operations, kind and target task "
                 "solver-enumerated from {advance, update(completed), update(total), update(advance), reset(total?,completed), "
                 "start_task, stop_task}; amounts %s, totals in [-3,30], clock steps in [0,40] all symbolic"
                 % (nops, "in [0,30]" if nonneg else "in [-30,30]"),
          outside="multi-threaded histories (not applicable, see C11); float amounts; longer histories")
    def h(e):
        clock = Clock(e)
        p = Progress(console=Console(file=io.StringIO(), width=80, force_terminal=False), auto_refresh=False, disable=True,
                     get_time=clock, speed_estimate_period=30)
        lo = 0 if nonneg else -30
        t0_total = e.mk("total0", -3, 30)
        t1_total = e.mk("total1", -3, 30)
        ids = [p.add_task("a", total=t0_total), p.add_task("b", start=False, total=t1_total)]
        ref = {ids[0]: 0, ids[1]: 0}           # reference completed count
        ref_total = {ids[0]: t0_total, ids[1]: t1_total}
        ok = True
        for step in range(nops):
            kind = first if (first is not None and step == 0) else int(e.mk("op%d" % step, 0, 6))
            tid = ids[int(e.mk("task%d" % step, 0, 1))]
            task = p._tasks[tid]
            was_finished = task.finished_time is not None
            old_ft = task.finished_time
            total_changed = False
            advanced = False
            if kind == 0:
                a = e.mk("amt%d" % step, lo, 30)
                p.advance(tid, a)
                ref[tid] = ref[tid] + a
                advanced = True
            elif kind == 1:
                c = e.mk("amt%d" % step, lo, 30)
                p.update(tid, completed=c)
                ref[tid] = c
                advanced = True
            elif kind == 2:
                nt = e.mk("amt%d" % step, -3, 30)
                p.update(tid, total=nt)
                ref_total[tid] = nt
                total_changed = True
                advanced = True
            elif kind == 3:
                a = e.mk("amt%d" % step, lo, 30)
                p.update(tid, advance=a)
                ref[tid] = ref[tid] + a
                advanced = True
            elif kind == 4:
                c = e.mk("amt%d" % step, 0, 30)
                newtotal = e.mk("tot%d" % step, -3, 30)
                if e.mkbool("settotal%d" % step):
                    p.reset(tid, total=newtotal, completed=c)
                    ref_total[tid] = newtotal
                else:
                    p.reset(tid, completed=c)
                ref[tid] = c
                total_changed = True
            elif kind == 5:
                p.start_task(tid)
            else:
                p.stop_task(tid)
            # --- assertions after every prefix ---
            for t in p.tasks:
                ok = sym_and(ok, t.completed == ref[t.id], t.total == ref_total[t.id])
                pct = t.percentage
                if _truth(t.total == 0):
                    ok = sym_and(ok, pct == 0)
                else:
                    raw100 = t.completed * 100      # compare raw*100/total without division
                    tot = t.total
                    if _truth(tot > 0):
                        below, above = raw100 <= 0, raw100 >= 100 * tot
                    else:
                        below, above = raw100 >= 0, raw100 <= 100 * tot
                    if _truth(below):
                        ok = sym_and(ok, pct == 0)
                    elif _truth(above):
                        ok = sym_and(ok, pct == 100)
                    else:
                        ok = sym_and(ok, pct * tot == raw100)
            if advanced and task.started and _truth(task.completed >= task.total):
                ok = sym_and(ok, task.finished)
            if was_finished and not total_changed:
                ok = sym_and(ok, task.finished_time is not None and _truth(task.finished_time == old_ft))
            if nonneg:
                for t in p.tasks:
                    sp = t.speed
                    if sp is not None:
                        ok = sym_and(ok, sp >= 0)
                if kind in (0, 3) and task.started and task.stop_time is None:
                    tr = task.time_remaining
                    if tr is not None:
                        ok = sym_and(ok, tr >= 0)
        return ok
    return h


_mk(2, True, ("quick", "thorough"), 600)
_mk(2, False, ("quick", "thorough"), 600)
for _f in range(7):
    _mk(3, True, ("thorough",), 3400, first=_f)
    _mk(3, False, ("thorough",), 3400, first=_f)


@symx("C12-track", timeout=300, kind="P", functions=["rich/progress.py:Progress.track", "rich/progress.py:Progress.advance"],
      stubs=STUBS, bounds="track() without auto-refresh over sequences of length 0..4 (length solver-enumerated), as list and as "
                          "generator with explicit total: yields every element once in order, completed == number yielded")
def c12_track(e):
    n = int(e.mk("n", 0, 4))
    gen = e.mkbool("generator")
    clock = Clock(e)
    p = Progress(console=Console(file=io.StringIO(), width=80, force_terminal=False), auto_refresh=False, disable=True,
                 get_time=clock, speed_estimate_period=30)
    items = ["x%d" % i for i in range(n)]
    if gen:
        out = list(p.track((x for x in items), total=n))
    else:
        out = list(p.track(items))
    t = p.tasks[0]
    return out == items and t.completed == n and (n == 0 or t.finished) and t.total == n


@symx("C12-stop-then-advance", timeout=600, kind="S", functions=F_P, stubs=STUBS, opts={"query_timeout_ms": 120000},
      bounds="one started task, total in [1,30]; three advances with amounts in [0,30] and stop_task (optionally followed by "
             "start_task) inserted at a solver-chosen position 0..3; clock steps in [0,40] symbolic: after every operation completed "
             "is the sum of the advances, the speed estimate is never negative, and a finished task's finish time stays fixed",
      outside="as C12-history-*; this is the 4..5-operation slice of the history space in which a task keeps advancing after it was "
              "stopped (samples newer than stop_time)")
def c12_stop_then_advance(e):
    clock = Clock(e)
    p = Progress(console=Console(file=io.StringIO(), width=80, force_terminal=False), auto_refresh=False, disable=True,
                 get_time=clock, speed_estimate_period=30)
    total = e.mk("total", 1, 30)
    tid = p.add_task("a", total=total)
    task = p._tasks[tid]
    stop_at = int(e.mk("stop_at", 0, 3))
    restart = bool(e.mkbool("restart_after_stop"))
    done = 0
    ok = True
    for step in range(4):
        if step == stop_at:
            p.stop_task(tid)
            if restart:
                p.start_task(tid)
        if step == 3:
            break
        old_ft = task.finished_time
        a = e.mk("amt%d" % step, 0, 30)
        if e.mkbool("via_update%d" % step):
            p.update(tid, advance=a)
        else:
            p.advance(tid, a)
        done = done + a
        ok = sym_and(ok, task.completed == done)
        sp = task.speed
        if sp is not None:
            ok = sym_and(ok, sp >= 0)
        if old_ft is not None:
            ok = sym_and(ok, task.finished_time is not None and _truth(task.finished_time == old_ft))
        if _truth(task.completed >= task.total):
            ok = sym_and(ok, task.finished)
    return ok
