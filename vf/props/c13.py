"""C13 - cell-width arithmetic and line shaping (DESIGN.md 5, C13)."""
import z3

from rich import cells
from rich._cell_widths import CELL_WIDTHS
from rich.segment import Segment
from rich.style import Style

from vf.obl import symx, xh
from vf.common import SIGMA, SIGMA_NL, WIDE, ZERO, over, ref_width, table_width
from vf.symx import SymBool, SymInt, sym_and

F_CELLS = ["rich/cells.py:_get_codepoint_cell_size", "rich/cells.py:get_character_cell_size",
           "rich/_cell_widths.py:CELL_WIDTHS"]


# --- a. table lookup for every code point (S, symx) --------------------------
def _spec(e, cp):
    """Reference width: linear scan of the table, as an If-term (symbolic) or directly (replay)."""
    if isinstance(cp, int):
        return table_width(cp)
    spec = e.memo.get("spec")
    if spec is None:
        spec = e.val(1)
        for (s, en, w) in reversed(CELL_WIDTHS):
            spec = z3.If(z3.And(cp.z >= s, cp.z <= en), e.val(0 if w == -1 else w), spec)
        e.memo["spec"] = spec
    return SymInt(e, spec)


@symx("C13-a-codepoint-table", timeout=600, kind="S", functions=F_CELLS,
      bounds="every code point 0..0x10FFFF (complete)", outside="nothing for the table lookup",
      stubs=["S2: lru_cache bypassed via __wrapped__"])
def c13_a_table(e):
    cp = e.mk("cp", 0, 0x10FFFF)
    f = getattr(cells._get_codepoint_cell_size, '__wrapped__', cells._get_codepoint_cell_size)
    got = f(cp)
    again = f(cp)
    return sym_and(got == _spec(e, cp), again == got)


@symx("C13-a-character-size", timeout=600, kind="S", functions=F_CELLS,
      bounds="every code point 0..0x10FFFF through get_character_cell_size (ASCII shortcut included)",
      stubs=["ord() in rich.cells replaced by identity so the code point itself is the symbolic input",
             "S2: lru_cache on _get_codepoint_cell_size replaced by the undecorated function"])
def c13_a_char(e):
    cp = e.mk("cp", 0, 0x10FFFF)
    saved = cells._get_codepoint_cell_size
    cells.ord = lambda ch: ch
    cells._get_codepoint_cell_size = getattr(saved, '__wrapped__', saved)
    try:
        got = cells.get_character_cell_size(cp)
    finally:
        del cells.ord
        cells._get_codepoint_cell_size = saved
    return got == _spec(e, cp)


@symx("C13-a-table-sorted", timeout=120, kind="P", functions=["rich/_cell_widths.py:CELL_WIDTHS"],
      bounds="all adjacent entry pairs (index enumerated by the solver)", twin=True)
def c13_a_sorted(e):
    # the binary search is only correct on sorted, disjoint ranges: start<=end<next start, widths in {-1,0,1,2}
    i = e.mk("i", 0, len(CELL_WIDTHS) - 2)
    k = int(i)  # concretised by the engine: enumerates every index
    s, en, w = CELL_WIDTHS[k]
    s2, en2, w2 = CELL_WIDTHS[k + 1]
    return s <= en < s2 <= en2 and w in (-1, 0, 1, 2) and w2 in (-1, 0, 1, 2)


# --- b. set_cell_size (S, xh) ------------------------------------------------
def _mk_set_cell_size(n_len, tiers, timeout):
    def pre(s: str, n: int) -> bool:
        return len(s) == n_len and over(s, SIGMA) and 0 <= n <= 2 * n_len + 2

    @xh("C13-b-set_cell_size-len%d" % n_len, pre=pre, tiers=tiers, timeout=timeout, kind="S",
        functions=["rich/cells.py:set_cell_size", "rich/cells.py:cell_len"] + F_CELLS,
        bounds="len(s)==%d over {a,b,space,U+4E2D,U+0301}, 0<=n<=%d" % (n_len, 2 * n_len + 2),
        outside="longer strings, other characters (table covered by C13-a)", stubs=["S1"])
    def h(s: str, n: int) -> bool:
        r = cells.set_cell_size(s, n)
        if ref_width(r) != n:
            return False
        # result = prefix of s followed only by spaces
        k = 0
        while k < len(r) and k < len(s) and r[k] == s[k]:
            k += 1
        for c in r[k:]:
            if c != " ":
                return False
        # cell_len agrees with the reference on both strings
        return cells.cell_len(r) == n and cells.cell_len(s) == ref_width(s)
    return h


for _n, _t, _to in [(0, ("quick", "thorough"), 30), (1, ("quick", "thorough"), 30), (2, ("quick", "thorough"), 60),
                    (3, ("quick", "thorough"), 120), (4, ("thorough",), 400), (5, ("thorough",), 1500)]:
    _mk_set_cell_size(_n, _t, _to)


# --- c. chop_cells (S, xh) -----------------------------------------------------
def _mk_chop(n_len, tiers, timeout):
    def pre(s: str, w: int, position: int) -> bool:
        return len(s) == n_len and over(s, SIGMA) and 2 <= w <= 7 and 0 <= position <= w

    @xh("C13-c-chop_cells-len%d" % n_len, pre=pre, tiers=tiers, timeout=timeout, kind="S",
        functions=["rich/cells.py:chop_cells"] + F_CELLS,
        bounds="len(s)==%d over Sigma, 2<=width<=7, 0<=position<=width" % n_len, stubs=["S1"])
    def h(s: str, w: int, position: int) -> bool:
        pieces = cells.chop_cells(s, w, position)
        if "".join(pieces) != s:
            return False
        first = True
        for p in pieces:
            if ref_width(p) + (position if first else 0) > w:
                return False
            first = False
        return True
    return h


for _n, _t, _to in [(1, ("quick", "thorough"), 30), (2, ("quick", "thorough"), 60), (3, ("quick", "thorough"), 120),
                    (4, ("thorough",), 400), (5, ("thorough",), 1500)]:
    _mk_chop(_n, _t, _to)


# --- d. segment line shaping (S, xh) -------------------------------------------
S1 = Style(bold=True)
S2 = Style(italic=True)
SP = Style(underline=True)
_TAGS = [(S1, "1"), (S2, "2"), (SP, "P")]
F_SEG = ["rich/segment.py:Segment.adjust_line_length", "rich/segment.py:Segment.split_and_crop_lines",
         "rich/segment.py:Segment.split_lines", "rich/segment.py:Segment.set_shape", "rich/segment.py:Segment.simplify",
         "rich/cells.py:set_cell_size", "rich/cells.py:cell_len"]


def _tag(style) -> str:
    if style is None:
        return "0"
    for st, t in _TAGS:
        if style is st or style == st:
            return t
    return "?"


def _flat(segments):
    """(chars, tags) of the non-control segments, as two parallel strings."""
    chars = ""
    tags = ""
    for seg in segments:
        if seg.is_control:
            continue
        chars += seg.text
        tags += _tag(seg.style) * len(seg.text)
    return chars, tags


def _line_ok(in_chars, in_tags, out_chars, out_tags, length, pad, pad_tag) -> bool:
    """Specification of adjust_line_length on flattened (char, style-tag) strings."""
    w_in = ref_width(in_chars)
    if len(out_chars) != len(out_tags):
        return False
    if w_in < length:
        if not pad:
            return out_chars == in_chars and out_tags == in_tags
        n = length - w_in
        return out_chars == in_chars + " " * n and out_tags == in_tags + pad_tag * n
    if w_in == length:
        return out_chars == in_chars and out_tags == in_tags
    # cropped: exact width, prefix of the input, optionally one space in the style of the cut character
    if ref_width(out_chars) != length:
        return False
    k = len(out_chars)
    if in_chars[:k] == out_chars and in_tags[:k] == out_tags:
        return True
    if k == 0 or k > len(in_chars):
        return False
    return (in_chars[:k - 1] == out_chars[:k - 1] and in_tags[:k] == out_tags and out_chars[k - 1] == " "
            and in_chars[k - 1] == WIDE)


def _mk_adjust(lens, tiers, timeout, with_control):
    l0, l1, l2 = lens
    maxw = 2 * (l0 + l1 + l2) + 1

    def pre(t0: str, t1: str, t2: str, c1: bool, length: int, pad: bool) -> bool:
        if not with_control and c1:
            return False
        return (len(t0) == l0 and len(t1) == l1 and len(t2) == l2 and over(t0, SIGMA) and over(t1, SIGMA)
                and over(t2, SIGMA) and 0 <= length <= maxw)

    @xh("C13-d-adjust_line_length-%d%d%d%s" % (l0, l1, l2, "-ctl" if with_control else ""), pre=pre, tiers=tiers,
        timeout=timeout, kind="S", functions=F_SEG, stubs=["S1"],
        bounds="3 segments with text lengths %r over Sigma, styles (bold, None, italic), middle segment control flag %s, "
               "0<=length<=%d, pad symbolic, pad style underline" % (lens, "symbolic" if with_control else "False", maxw),
        outside="more segments, longer texts; styles are opaque tags (A2)")
    def h(t0: str, t1: str, t2: str, c1: bool, length: int, pad: bool) -> bool:
        line = [Segment(t0, S1), Segment(t1, None, c1), Segment(t2, S2)]
        out = Segment.adjust_line_length(line, length, style=SP, pad=pad)
        ic, it = _flat(line)
        oc, ot = _flat(out)
        if not _line_ok(ic, it, oc, ot, length, pad, "P"):
            return False
        if pad or ref_width(ic) >= length:
            return Segment.get_line_length(out) == length
        return True
    return h


for _l in [(0, 0, 0), (1, 0, 0), (1, 1, 0), (2, 0, 0), (2, 1, 0), (1, 2, 0)]:
    _mk_adjust(_l, ("quick", "thorough"), 300, False)
for _l in [(1, 1, 0), (1, 1, 1)]:
    _mk_adjust(_l, ("quick", "thorough"), 400, True)
for _l in [(2, 2, 0)]:
    _mk_adjust(_l, ("thorough",), 1500, False)
for _l in [(2, 1, 1), (1, 2, 1), (1, 1, 2), (3, 1, 0)]:
    _mk_adjust(_l, ("thorough",), 1500, True)


def _split_ref(chars, tags):
    """Split flattened strings at newlines -> list of (chars, tags); no trailing empty line."""
    lines = []
    cur_c = ""
    cur_t = ""
    for i in range(len(chars)):
        if chars[i] == "\n":
            lines.append((cur_c, cur_t))
            cur_c = ""
            cur_t = ""
        else:
            cur_c += chars[i]
            cur_t += tags[i]
    if cur_c:
        lines.append((cur_c, cur_t))
    return lines


def _lines_match(want, got_lines, line_ok) -> bool:
    """got may carry one extra final line for an empty remainder (Rich yields a line when the last segments are empty);
    the property does not say which, so both are accepted - but that line must then be a correctly shaped empty line."""
    if len(got_lines) == len(want) + 1:
        want = want + [("", "")]
    if len(got_lines) != len(want):
        return False
    for (wc, wt), line in zip(want, got_lines):
        oc, ot = _flat(line)
        if not line_ok(wc, wt, oc, ot):
            return False
    return True


def _mk_split_crop(lens, tiers, timeout):
    l0, l1 = lens

    def pre(t0: str, t1: str, length: int, pad: bool, c1: bool, nl: bool) -> bool:
        return (len(t0) == l0 and len(t1) == l1 and over(t0, SIGMA_NL) and over(t1, SIGMA_NL)
                and 0 <= length <= 2 * (l0 + l1) + 1)

    @xh("C13-d-split_and_crop_lines-%d%d" % lens, pre=pre, tiers=tiers, timeout=timeout, kind="S", functions=F_SEG,
        stubs=["S1"],
        bounds="2 segments (bold, italic), text lengths %r over Sigma+newline, second segment's control flag symbolic, "
               "0<=length<=%d, pad and include_new_lines symbolic, requested pad style underline; all lines are materialised "
               "before any is inspected (a line must not change when the next one is produced); with include_new_lines each "
               "line that ended in a newline carries exactly one trailing newline segment and no other line any"
               % (lens, 2 * (l0 + l1) + 1))
    def h(t0: str, t1: str, length: int, pad: bool, c1: bool, nl: bool) -> bool:
        segs = [Segment(t0, S1), Segment(t1, S2, c1)]
        out = list(Segment.split_and_crop_lines(segs, length, style=SP, pad=pad, include_new_lines=nl))
        ic, it = _flat(segs)
        want = _split_ref(ic, it)
        if nl:
            n_newlines = len([ch for ch in ic if ch == "\n"])
            stripped = []
            for i, line in enumerate(out):
                line = list(line)
                if i < n_newlines:
                    if not line or line[-1].text != "\n" or line[-1].is_control:
                        return False
                    line.pop()
                stripped.append(line)
            out = stripped
        if c1:
            # a control segment is never split and never becomes visible text (it may be dropped together with the
            # part of a line that is cropped away); if it survives it is the same control segment
            ctl = [s for line in out for s in line if s.is_control]
            if [s.text for s in ctl] not in ([], [t1]):
                return False
        return _lines_match(want, out, lambda wc, wt, oc, ot: _line_ok(wc, wt, oc, ot, length, pad, "P"))
    return h


for _l in [(0, 0), (1, 0), (0, 1), (1, 1), (2, 0), (0, 2)]:
    _mk_split_crop(_l, ("quick", "thorough"), 300)
for _l in [(2, 1), (1, 2), (2, 2), (3, 1)]:
    _mk_split_crop(_l, ("thorough",), 2400)


def _mk_split_lines(lens, tiers, timeout):
    l0, l1 = lens

    def pre(t0: str, t1: str, c1: bool) -> bool:
        return len(t0) == l0 and len(t1) == l1 and over(t0, SIGMA_NL) and over(t1, SIGMA_NL)

    @xh("C13-d-split_lines-%d%d" % lens, pre=pre, tiers=tiers, timeout=timeout, kind="S", functions=F_SEG, stubs=["S1"],
        bounds="2 segments, text lengths %r over Sigma+newline, second segment control flag symbolic" % (lens,))
    def h(t0: str, t1: str, c1: bool) -> bool:
        segs = [Segment(t0, S1), Segment(t1, S2, c1)]
        out = list(Segment.split_lines(segs))
        ic, it = _flat(segs)
        want = _split_ref(ic, it)
        return _lines_match(want, out, lambda wc, wt, oc, ot: wc == oc and wt == ot)
    return h


for _l in [(0, 0), (1, 1), (2, 1), (1, 2), (2, 2)]:
    _mk_split_lines(_l, ("quick", "thorough"), 150)
for _l in [(3, 2), (2, 3), (3, 3)]:
    _mk_split_lines(_l, ("thorough",), 1200)


def _mk_simplify(tiers, timeout):
    def pre(t0: str, t1: str, t2: str, same01: bool, same12: bool, c0: bool, c1: bool, c2: bool) -> bool:
        return len(t0) <= 1 and len(t1) <= 1 and len(t2) <= 1 and over(t0, "a<") and over(t1, "a<") and over(t2, "a<")

    @xh("C13-d-simplify", pre=pre, tiers=tiers, timeout=timeout, kind="S", functions=["rich/segment.py:Segment.simplify"],
        bounds="3 segments, texts up to 1 char, equal/different neighbouring styles symbolic, control flags symbolic")
    def h(t0: str, t1: str, t2: str, same01: bool, same12: bool, c0: bool, c1: bool, c2: bool) -> bool:
        st0 = S1
        st1 = S1 if same01 else S2
        st2 = st1 if same12 else (SP if st1 is not SP else S1)
        segs = [Segment(t0, st0, c0), Segment(t1, st1, c1), Segment(t2, st2, c2)]
        out = list(Segment.simplify(segs))
        # visible (char, style) sequence preserved, and control text never becomes visible text or vice versa
        if _flat(out) != _flat(segs):
            return False
        ctl_in = "".join(s.text for s in segs if s.is_control)
        ctl_out = "".join(s.text for s in out if s.is_control)
        return ctl_in == ctl_out
    return h


_mk_simplify(("quick", "thorough"), 200)


def _mk_set_shape(lens, tiers, timeout):
    l0, l1 = lens

    def pre(t0: str, t1: str, width: int, height: int) -> bool:
        return (len(t0) == l0 and len(t1) == l1 and over(t0, SIGMA) and over(t1, SIGMA) and 0 <= width <= 5
                and 1 <= height <= 3)

    @xh("C13-d-set_shape-%d%d" % lens, pre=pre, tiers=tiers, timeout=timeout, kind="S", functions=F_SEG, stubs=["S1"],
        bounds="2 lines of one segment each (text lengths %r over Sigma), 0<=width<=5, height None (coded 1) or 2..3" % (lens,))
    def h(t0: str, t1: str, width: int, height: int) -> bool:
        lines = [[Segment(t0, S1)], [Segment(t1, S2)]]
        out = Segment.set_shape(lines, width, height if height >= 2 else None, style=SP)
        want_h = height if height >= 2 else 2
        if len(out) != want_h:
            return False
        for i, line in enumerate(out):
            oc, ot = _flat(line)
            if ref_width(oc) != width:
                return False
            if i < 2:
                ic, it = _flat(lines[i])
                if not _line_ok(ic, it, oc, ot, width, True, "P"):
                    return False
            elif oc != " " * width or ot != "P" * width:
                return False
        return True
    return h


for _l in [(0, 1), (1, 1)]:
    _mk_set_shape(_l, ("quick", "thorough"), 200)
for _l in [(2, 1), (2, 2)]:
    _mk_set_shape(_l, ("thorough",), 1500)


# --- e. cache transparency (P) ---------------------------------------------------
from rich._lru_cache import LRUCache  # noqa: E402


def _mk_cache(lens, tiers, timeout):
    lk1, lk2, lt = lens

    def pre(k1: str, k2: str, t: str, two: bool) -> bool:
        return (len(k1) == lk1 and len(k2) == lk2 and len(t) == lt and over(k1, SIGMA) and over(k2, SIGMA)
                and over(t, SIGMA))

    @xh("C13-e-cell_len-cache-%d%d%d" % lens, pre=pre, tiers=tiers, timeout=timeout, kind="P",
        functions=["rich/cells.py:cell_len", "rich/_lru_cache.py:LRUCache.__setitem__", "rich/_lru_cache.py:LRUCache.__getitem__"],
        bounds="inductive step: any LRUCache(2) state with 1 or 2 entries (key lengths %d,%d over Sigma) satisfying "
               "'value == reference width of key'; one measurement of a string of length %d" % lens,
        outside="strings are hashed, so CrossHair enumerates them (kind P); longer keys; the real cache size 4096",
        stubs=["the cache is passed explicitly as cell_len's _cache argument (the real memo is its default argument)"])
    def h(k1: str, k2: str, t: str, two: bool) -> bool:
        cache = LRUCache(2)
        cache[k1] = ref_width(k1)
        if two:
            cache[k2] = ref_width(k2)
        got = cells.cell_len(t, cache)
        if got != ref_width(t):
            return False
        again = cells.cell_len(t, cache)
        if again != got or len(cache) > 2:
            return False
        for k, v in cache.items():
            if v != ref_width(k):
                return False
        return True
    return h


_mk_cache((1, 1, 1), ("quick", "thorough"), 300)
_mk_cache((1, 2, 1), ("thorough",), 1500)
_mk_cache((1, 1, 2), ("thorough",), 1500)


def _mk_lru(nops, tiers, timeout):
    @symx("C13-e-lrucache-%dops" % nops, tiers=tiers, timeout=timeout, kind="P",
          functions=["rich/_lru_cache.py:LRUCache"],
          bounds="all sequences of %d operations get/set on LRUCache(2) over 3 keys (operation kinds and keys solver-enumerated), "
                 "values symbolic ints" % nops,
          outside="longer histories; larger caches")
    def h(e):
        cache = LRUCache(2)
        model = []  # list of (key, value), most recently used last
        ok = True
        for i in range(nops):
            op = int(e.mk("op%d" % i, 0, 1))
            k = int(e.mk("k%d" % i, 0, 2))
            if op == 0:
                v = e.mk("v%d" % i, 0, 9)
                cache[k] = v
                present = [j for j, (mk, _) in enumerate(model) if mk == k]
                if present:
                    model[present[0]] = (k, v)
                else:
                    if len(model) >= 2:
                        model.pop(0)
                    model.append((k, v))
            else:
                present = [j for j, (mk, _) in enumerate(model) if mk == k]
                got = cache.get(k, None)
                if present:
                    ok = sym_and(ok, got == model[present[0]][1]) if got is not None else False
                else:
                    if got is not None:
                        ok = False
                if k in cache:
                    _ = cache[k]  # __getitem__ refreshes recency
                    if not present:
                        ok = False
                    else:
                        model.append(model.pop(present[0]))
            if len(cache) > 2 or sorted(cache.keys()) != sorted(mk for mk, _ in model):
                ok = False
        return ok
    return h


_mk_lru(3, ("quick", "thorough"), 300)
_mk_lru(5, ("thorough",), 1500)


# --- e2. results do not depend on what was measured before (P, real caches in place) -----------------------------------
_HIST = ["", "a", "ab ", "a中b", "中中中", "a\u0301", "Supercalifragilistic", "a b"]


@symx("C13-e-history-independence", timeout=900, kind="P",
      functions=["rich/cells.py:cell_len", "rich/cells.py:set_cell_size", "rich/cells.py:chop_cells", "rich/cells.py:get_character_cell_size"],
      bounds="sequences x, y, x over %d catalogue strings with the library's real caches in place (nothing unwrapped): cell_len, "
             "set_cell_size(n in 0..6) and chop_cells(width in 2..6) return the same, reference-correct result on the repeated call "
             "(strings and sizes solver-enumerated, native)" % len(_HIST),
      outside="strings outside the catalogue; eviction of the 4096-entry caches (covered by the LRUCache(2) step obligations)")
def c13_history(e):
    from vf.common import ref_width_concrete
    x = _HIST[int(e.mk("x", 0, len(_HIST) - 1))]
    y = _HIST[int(e.mk("y", 0, len(_HIST) - 1))]
    n = int(e.mk("n", 0, 6))
    w = int(e.mk("w", 2, 6))
    first = (cells.cell_len(x), cells.set_cell_size(x, n), cells.chop_cells(x, w))
    cells.cell_len(y), cells.set_cell_size(y, n), cells.chop_cells(y, w)
    again = (cells.cell_len(x), cells.set_cell_size(x, n), cells.chop_cells(x, w))
    if first != again:
        return False
    return (first[0] == ref_width_concrete(x) and ref_width_concrete(first[1]) == n and "".join(first[2]) == x
            and all(ref_width_concrete(p) <= w for p in first[2]))


# --- lookups of neighbouring code points in either order, real caches (P) -----------------------------------------------------
def _boundary_points():
    from rich._cell_widths import CELL_WIDTHS
    return CELL_WIDTHS


@symx("C13-e-codepoint-lookup-order", timeout=900, kind="P",
      functions=["rich/cells.py:get_character_cell_size", "rich/cells.py:_get_codepoint_cell_size", "rich/cells.py:cell_len"],
      bounds="for every entry (start, end, width) of the width table (index solver-enumerated) and each of its two edges: the code "
             "points just outside, on and just inside the edge are looked up one after the other in every order of two and in the "
             "ascending and descending order of all of them, then the far edge and the neighbouring entries' edges, through "
             "cell_len and get_character_cell_size with the library's real caches and any module state in place: every answer equals "
             "the linear scan of the table, whatever was looked up before",
      outside="orders of more distant code points (single lookups of every code point on a fresh state: C13-a)")
def c13_lookup_order(e):
    from vf.common import ref_width_concrete
    table = _boundary_points()
    i = int(e.mk("entry", 0, len(table) - 1))
    start, end, _w = table[i]
    pts = sorted({p for p in (start - 1, start, start + 1, end - 1, end, end + 1) if 0x20 <= p <= 0x10FFFF
                  and not 0xD800 <= p <= 0xDFFF})
    nb = []
    if i > 0:
        nb.append(table[i - 1][1])
    if i + 1 < len(table):
        nb.append(table[i + 1][0])
    nb = [p for p in nb if 0x20 <= p and not 0xD800 <= p <= 0xDFFF]
    orders = [pts, pts[::-1], nb + pts, pts + nb, nb + pts[::-1]]
    for a in pts:
        for b in pts:
            orders.append([a, b, a])
    which = bool(e.mkbool("via_cell_len"))
    for order in orders:
        # each order starts from empty memo tables (best effort: every cache the module exposes), so that an answer cached by an
        # earlier order cannot mask a wrong one; any other module state is left as the previous lookups made it
        for f in vars(cells).values():
            if callable(getattr(f, "cache_clear", None)):
                f.cache_clear()
            for d in (getattr(f, "__defaults__", None) or ()):
                if isinstance(d, dict):
                    d.clear()
        for p in order:
            ch = chr(p)
            got = cells.cell_len(ch + "a") - 1 if which else cells.get_character_cell_size(ch)
            if got != ref_width_concrete(ch):
                return False
    return True
