#!/usr/bin/env python3
"""Regenerate seeded/SUMMARY.md from seeded/*/meta.json."""
import glob, json, os
rows = []
for f in sorted(glob.glob("/verif/seeded/*/meta.json")):
    m = json.load(open(f))
    name = os.path.basename(os.path.dirname(f))
    needs = (m.get("needs") or "").strip().split("\n")
    first = next((l for l in needs if l.strip() and not l.startswith("#")), "")[:160]
    checks = m.get("checks", {})
    det = [p for p, v in checks.items() if v.get("exit") == 1]
    ran = ", ".join("%s:%s" % (p, "caught" if v.get("exit") == 1 else "missed") for p, v in checks.items())
    obl = []
    for p in det:
        obl += [l.split()[1] for l in checks[p].get("lines", []) if l.startswith("REFUTED")][:2]
    rows.append((name, m.get("property"), "yes" if det else "NO", ran, ", ".join(obl), first))
with open("/verif/seeded/SUMMARY.md", "w") as f:
    f.write("# Seeded changes and the checks that catch them\n\n")
    f.write("Each change was produced by a sub-agent that saw only the property text; confirmed here (430 tests still pass, demo fails "
            "with the change and passes without). `caught` = the property's quick check exits 1 with a replaying VIOLATION.\n\n")
    f.write("| seed | breaks | caught | checks run | refuting obligations | what it is |\n|---|---|---|---|---|---|\n")
    for r in rows:
        f.write("| %s | %s | %s | %s | %s | %s |\n" % tuple(str(x).replace("|", "/") for x in r))
print(open("/verif/seeded/SUMMARY.md").read()[:3000])
