"""Runner: ./check <Cxx> [--tier quick|thorough] [--only substr] [--jobs N]
        ./check <Cxx> --replay <path>
        ./check --list
"""
import argparse
import hashlib
import json
import os
import subprocess
import sys
import time
from concurrent.futures import ThreadPoolExecutor

ROOT = os.path.dirname(os.path.dirname(os.path.abspath(__file__)))
sys.path.insert(0, ROOT)
PY = sys.executable
REPO = os.environ.get("VF_REPO", "/repo")   # VF_REPO: development only (run against a scratch worktree)


def sh(cmd):
    try:
        return subprocess.run(cmd, shell=True, capture_output=True, text=True, timeout=30).stdout.strip()
    except Exception:
        return ""


def tree_hash(files):
    h = hashlib.sha256()
    for f in sorted(set(files)):
        p = os.path.join(REPO, f)
        try:
            with open(p, "rb") as fh:
                h.update(f.encode() + b"\0" + fh.read())
        except OSError:
            h.update(f.encode() + b"\0<missing>")
    return h.hexdigest()[:16]


def run_worker(prop, oid, mode, extra, wall, extra_env=None):
    cmd = [PY, "-m", "vf.worker", prop, oid, mode] + extra
    t0 = time.time()
    env = dict(os.environ)
    env.update(extra_env or {})
    env["PYTHONPATH"] = (REPO + os.pathsep + ROOT) if REPO != "/repo" else ROOT
    env["PYTHONHASHSEED"] = "0"
    try:
        p = subprocess.run(cmd, cwd=ROOT, capture_output=True, text=True, timeout=wall, env=env)
        out = p.stdout
        res = None
        for line in out.splitlines():
            if line.startswith("RESULT "):
                res = json.loads(line[7:])
        if res is None:
            res = {"id": oid, "verdict": "error",
                   "messages": [("no-result", (p.stderr or "")[-2000:] + " rc=%s" % p.returncode)]}
    except subprocess.TimeoutExpired:
        res = {"id": oid, "verdict": "inconclusive", "messages": [("wall-timeout", str(wall))]}
    res["proc_wall_s"] = round(time.time() - t0, 2)
    return res


def load_known():
    p = os.path.join(ROOT, "known_findings.json")
    if not os.path.exists(p):
        return []
    return json.load(open(p)).get("findings", [])


def write_replay(prop, oid, model, detail):
    d = os.path.join(ROOT, "replays")
    os.makedirs(d, exist_ok=True)
    path = os.path.join(d, "%s.py" % oid)
    with open(path, "w") as f:
        f.write("#!/verif/.venv/bin/python\n")
        f.write('"""Replay of a counterexample for obligation %s (property %s).\n\n' % (oid, prop))
        f.write("Runs the obligation's harness with these concrete arguments against /repo, no solver.\n")
        f.write("Exit code 1 = the violation reproduces.  Detail at discovery: %s\n\"\"\"\n" % detail.replace('"""', "'''"))
        f.write("import sys\nsys.path.insert(0, %r)\n" % ROOT)
        f.write("from vf.worker import replay_main\n")
        f.write("MODEL = %r\n" % (model,))
        f.write("sys.exit(replay_main(%r, %r, MODEL))\n" % (prop, oid))
    os.chmod(path, 0o755)
    return path


def main():
    ap = argparse.ArgumentParser()
    ap.add_argument("prop", nargs="?")
    ap.add_argument("--tier", default=os.environ.get("VERIF_TIER", "quick"))
    ap.add_argument("--only", default=None)
    ap.add_argument("--jobs", type=int, default=int(os.environ.get("VF_JOBS", "16")))
    ap.add_argument("--replay", default=None)
    ap.add_argument("--list", action="store_true")
    ap.add_argument("--no-evidence", action="store_true")
    a = ap.parse_args()
    if a.tier not in ("quick", "thorough"):
        a.tier = "quick"

    if a.replay:
        r = subprocess.run([PY, a.replay], cwd=ROOT)
        if r.returncode == 1:
            print("VIOLATION property=%s replay=%s" % (a.prop, a.replay))
        sys.exit(r.returncode)

    from vf.worker import load
    if a.list:
        import glob
        for f in sorted(glob.glob(os.path.join(ROOT, "vf/props/c*.py"))):
            prop = os.path.basename(f)[:-3].upper()
            reg = load(prop)
            for o in reg.values():
                if o.prop == prop:
                    print(prop, o.id, o.engine, ",".join(o.tiers), o.timeout, o.kind, "|", o.bounds)
        return

    prop = a.prop.upper()
    t_start = time.time()
    reg = load(prop)
    obls = [o for o in reg.values() if o.prop == prop and a.tier in o.tiers]
    if a.only:
        obls = [o for o in obls if a.only in o.id]
    obls.sort(key=lambda o: -o.timeout)
    known = [k for k in load_known() if k.get("property") == prop and k.get("status", "open") == "open"]
    excl = {}
    for k in known:
        if k.get("exclude_pre"):
            excl.setdefault(k["obligation"], []).append(k["exclude_pre"])

    def job(o):
        extra = []
        if excl.get(o.id):
            extra = ["--exclude", json.dumps(excl[o.id])]
        wall = int(o.timeout * 2.5 + 90)
        res = run_worker(prop, o.id, "run", extra, wall)
        sys.stderr.write("  .. %s %s %ss\n" % (o.id, res.get("verdict"), res.get("proc_wall_s")))
        sys.stderr.flush()
        return o, res

    results = []
    with ThreadPoolExecutor(max_workers=a.jobs) as ex:
        for o, res in ex.map(job, obls):
            results.append((o, res))

    violations = []
    validated = 0
    lines = []
    for o, res in results:
        v = res.get("verdict")
        tw = res.get("twin") or {}
        if tw.get("replayed"):
            validated += 1
        if v == "proved" and o.twin and tw and tw.get("reachable") is False and res.get("engine") == "symx":
            v = res["verdict"] = "vacuous"
        if v == "proved" and tw.get("replayed") and tw.get("holds_concretely") is False:
            # the twin's witness fails the assertion when run concretely although the engine proved it
            v = res["verdict"] = "artefact"
        if v == "refuted":
            model = res.get("model") or {}
            rp = run_worker(prop, o.id, "replay", [json.dumps(model, ensure_ascii=False)], 300)
            res["replay"] = rp
            validated += 1
            if rp.get("reproduces"):
                path = write_replay(prop, o.id, model, str(rp.get("detail")))
                res["replay_path"] = path
                violations.append((o, res, path))
            else:
                res["verdict"] = "artefact"
        status = res["verdict"].upper()
        msg = "%-12s %-34s paths=%-6s queries=%-7s solver=%ss wall=%ss" % (
            status, o.id, res.get("paths", "-"), res.get("queries", "-"), res.get("solver_s", "-"),
            res.get("proc_wall_s", "-"))
        if status not in ("PROVED",):
            msg += "  " + json.dumps(res.get("messages", res.get("model", "")), ensure_ascii=False, default=repr)[:600]
        lines.append(msg)
    for ln in lines:
        print(ln)

    # known findings: each must be shown to still reproduce, by concrete replay of its stored model
    for k in known:
        o = reg.get(k.get("replay_obligation") or k["obligation"])
        if o is None:
            print("NOTE known finding refers to unknown obligation", k["obligation"])
            continue
        rp = run_worker(prop, o.id, "replay", [json.dumps(k["model"], ensure_ascii=False)], 300, {"VF_NO_KNOWN": "1"})
        if rp.get("reproduces"):
            print("KNOWN-FINDING: property=%s %s" % (prop, k["what"]))
        else:
            print("NOTE known finding no longer reproduces: property=%s %s" % (prop, k["what"]))

    n = len(results)
    proved = sum(1 for _, r in results if r["verdict"] == "proved")
    incon = [(o.id, r["verdict"]) for o, r in results if r["verdict"] not in ("proved", "refuted")]
    for oid, v in incon:
        print("INCONCLUSIVE %s (%s)" % (oid, v))
    wall = round(time.time() - t_start, 2)

    files = set()
    for o, _ in results:
        for f in o.functions:
            if "/" in f or f.endswith(".py"):
                files.add(f.split(":")[0])
    ev = {
        "property_id": prop,
        "tier": a.tier,
        "seed": int(os.environ.get("VERIF_SEED", "0") or 0),
        "level": "model_checking",
        "wall_s": wall,
        "violations": len(violations),
        "assumptions": sorted({s for o, _ in results for s in o.stubs}),
        "coverage": {
            "states": max(1, sum(int(r.get("paths", 0) or 0) for _, r in results)),
            "transitions": max(1, sum(int(r.get("queries", 0) or 0) for _, r in results)),
            "traces_validated_against_impl": validated,
            "obligations": n,
            "discharged": proved,
            "inconclusive": len(incon),
            "refuted": len(violations),
            "solver_s": round(sum(float(r.get("solver_s", 0) or 0) for _, r in results), 2),
            "exhaustive": False,
            "explanation": "states = execution paths of the real Rich functions exhausted by the engines; "
                           "transitions = SMT queries; a 'proved' obligation means every path inside the stated "
                           "bound was discharged by z3; inconclusive obligations are NOT counted as discharged.",
            "repo_head": sh("git -C /repo rev-parse HEAD"),
            "repo_dirty": bool(sh("git -C /repo status --porcelain -- rich")),
            "rich_tree_hash": tree_hash(["rich/" + f for f in os.listdir(os.path.join(REPO, "rich")) if f.endswith(".py")]),
            "samples": [
                {"obligation": o.id, "engine": o.engine, "kind": o.kind, "verdict": r["verdict"],
                 "functions_encoded": list(o.functions), "bounds": o.bounds, "outside_claim": o.outside,
                 "stubs": list(o.stubs), "paths": r.get("paths"), "queries": r.get("queries"),
                 "solver_s": r.get("solver_s"), "wall_s": r.get("proc_wall_s"),
                 "vacuity_witness": (r.get("twin") or {}).get("model"),
                 "model": r.get("model"), "engine_samples": r.get("samples")}
                for o, r in results
            ],
        },
    }
    if not a.no_evidence and not a.only:
        os.makedirs(os.path.join(ROOT, "evidence"), exist_ok=True)
        with open(os.path.join(ROOT, "evidence", prop + ".json"), "w") as f:
            json.dump(ev, f, indent=1, ensure_ascii=False, default=repr)
    print("SUMMARY property=%s tier=%s obligations=%d discharged=%d inconclusive=%d violations=%d wall=%ss" % (
        prop, a.tier, n, proved, len(incon), len(violations), wall))
    if violations:
        for o, res, path in violations:
            print("VIOLATION property=%s replay=%s" % (prop, path))
        sys.exit(1)
    sys.exit(0)


if __name__ == "__main__":
    main()
