"""C09 - measurements are sound bounds (DESIGN.md 5, C09)."""
from rich.measure import Measurement, measure_renderables

from vf.obl import symx, xh
from vf.symx import sym_and, sym_implies
from vf import kernel
from vf.kernel import SymCell

F_M = ["rich/measure.py:Measurement.get", "rich/measure.py:Measurement.normalize", "rich/measure.py:Measurement.with_maximum",
       "rich/measure.py:Measurement.with_minimum", "rich/measure.py:Measurement.clamp", "rich/measure.py:measure_renderables"]
STUBS = ["S7: renderables are stubs whose __rich_measure__ returns arbitrary solver-chosen integers (even min>max, negatives)", "S3"]


class _NoMeasure:
    def __rich_console__(self, console, options):
        yield ""


class _Cast:
    def __init__(self, inner):
        self.inner = inner

    def __rich__(self):
        return self.inner


def _in_range(m, w):
    return sym_and(0 <= m.minimum, m.minimum <= m.maximum, m.maximum <= w)


@symx("C09-measurement-get", timeout=600, kind="S", functions=F_M, stubs=STUBS,
      bounds="any raw (minimum, maximum) in [-50,400]^2 returned by __rich_measure__ (also via __rich__ cast and without a measure "
             "method) x every available width 0..300: 0 <= minimum <= maximum <= width")
def c09_get(e):
    mn, mx = e.mk("raw_min", -50, 400), e.mk("raw_max", -50, 400)
    w = e.mk("w", 0, 300)
    c = kernel.console()
    m1 = Measurement.get(c, SymCell(mn, mx), w)
    m2 = Measurement.get(c, _Cast(SymCell(mn, mx)), w)
    m3 = Measurement.get(c, _NoMeasure(), w)
    ok = sym_and(_in_range(m1, w), _in_range(m2, w), _in_range(m3, w), m1.minimum == m2.minimum, m1.maximum == m2.maximum)
    # a sane raw measurement that fits is reported unchanged
    sane = sym_and(0 <= mn, mn <= mx, mx <= w, mx >= 1)
    return sym_and(ok, sym_implies(sane, sym_and(m1.minimum == mn, m1.maximum == mx)))


@symx("C09-measurement-ops", timeout=600, kind="S", functions=F_M, stubs=STUBS,
      bounds="normalize / with_maximum / with_minimum / clamp on any (minimum, maximum) in [-5,80]^2 with bounds in [-5,80]")
def c09_ops(e):
    mn, mx = e.mk("mn", -5, 80), e.mk("mx", -5, 80)
    a, b = e.mk("a", -5, 80), e.mk("b", -5, 80)
    n = Measurement(mn, mx).normalize()
    ok = sym_and(0 <= n.minimum, n.minimum <= n.maximum)
    ok = sym_and(ok, sym_implies(sym_and(0 <= mn, mn <= mx), sym_and(n.minimum == mn, n.maximum == mx)))
    wm = n.with_maximum(a)
    ok = sym_and(ok, wm.minimum <= wm.maximum, sym_implies(a >= 0, wm.maximum <= a), wm.maximum <= n.maximum)
    wn = n.with_minimum(a)
    ok = sym_and(ok, wn.minimum <= wn.maximum, wn.minimum >= a, wn.minimum >= n.minimum)
    cl = n.clamp(a, b)
    ok = sym_and(ok, sym_implies(sym_and(0 <= a, a <= b), sym_and(a <= cl.minimum, cl.minimum <= cl.maximum, cl.maximum <= b)))
    return sym_and(ok, n.clamp(None, None) == n)


@symx("C09-measure-renderables", timeout=600, kind="S", functions=F_M, stubs=STUBS,
      bounds="two stub renderables with any raw measurements in [-5,60]^2, width 1..60: result within [0,width], equal to the "
             "widest minimum / widest maximum of the individual measurements; empty list gives (0,0)")
def c09_group(e):
    c = kernel.console()
    w = e.mk("w", 1, 60)
    cells = [SymCell(e.mk("mn%d" % i, -5, 60), e.mk("mx%d" % i, -5, 60)) for i in range(2)]
    m = measure_renderables(c, cells, w)
    each = [Measurement.get(c, x, w) for x in cells]
    ok = sym_and(0 <= m.minimum, m.maximum <= w)
    ok = sym_and(ok, m.minimum == max(each[0].minimum, each[1].minimum), m.maximum == max(each[0].maximum, each[1].maximum))
    ok = sym_and(ok, m.minimum <= m.maximum)
    z = measure_renderables(c, [], w)
    return sym_and(ok, z.minimum == 0, z.maximum == 0)


def _mk_table_measure(n, oname, tiers, timeout):
    from vf.props.c01 import OPTSETS, F_K, K_STUBS
    opts = dict(OPTSETS[oname])
    if opts.get("ratios"):
        opts["ratios"] = opts["ratios"][:n]

    @symx("C09-table-measure-%dcol-%s" % (n, oname), tiers=tiers, timeout=timeout, kind="S", stubs=K_STUBS,
          functions=F_K + ["rich/table.py:Table.__rich_measure__"] + F_M, opts={"query_timeout_ms": 600000},
          bounds="Measurement.get of a real Table (box=None, %d columns, options %r) with stub cells (0<=min<=max<=40), available "
                 "width 0..60: 0 <= minimum <= maximum <= width" % (n, opts))
    def h(e):
        t, cells = kernel.mk_table(e, n, opts, cell_hi=40)
        w = e.mk("w", 0, 60)
        m = Measurement.get(kernel.console(), t, w)
        return _in_range(m, w)
    return h


for _o in ["plain", "pad-expand"]:
    _mk_table_measure(2, _o, ("quick", "thorough"), 900)
for _o in ["pad-collapse", "ratio-expand", "minwidth"]:
    _mk_table_measure(2, _o, ("thorough",), 1800)


# --- composition: measurement vs rendering on the catalogue (C+S) --------------------------------------------------------
from vf import catalogue as cat  # noqa: E402
from vf.common import ref_width_concrete  # noqa: E402


def _mk_sound(lo, hi, tiers, timeout, wmax):
    @symx("C09-render-at-measure-w%d-trees%d-%d" % (wmax, lo, hi), tiers=tiers, timeout=timeout, kind="C+S",
          functions=F_M + ["rich/console.py:Console.render", "<each tree's __rich_measure__ and __rich_console__>"],
          bounds="catalogue trees %s x available width 0..%d (solver-enumerated, native): 0 <= minimum <= maximum <= width, and "
                 "rendering at the reported maximum and at the reported minimum gives no line wider than that value whenever it is at "
                 "or above the tree's structural minimum" % (cat.NAMES[lo:hi], wmax))
    def h(e):
        i = int(e.mk("tree", lo, hi - 1))
        name, factory, smin = cat.TREES[i]
        w = int(e.mk("width", 0, wmax))
        c = cat.console()
        m = Measurement.get(c, factory(), w)
        if not (0 <= m.minimum <= m.maximum <= w):
            return False
        for at in (m.maximum, m.minimum):
            if at >= smin and at >= 1:
                if any(x > at for x in cat.widths(cat.render_lines(c, factory(), at))):
                    return False
        return True
    return h


_NT = len(cat.TREES)
for _lo in range(0, _NT, 6):
    _mk_sound(_lo, min(_NT, _lo + 6), ("quick",), 900, 60)
    _mk_sound(_lo, min(_NT, _lo + 6), ("thorough",), 3000, 200)


# --- Text: minimum = widest word, maximum = widest line (S, CrossHair on symbolic strings) ------------------------------------
from rich.text import Text  # noqa: E402
from vf.obl import xh  # noqa: E402
from vf.common import over, ref_width, SIGMA  # noqa: E402

_TSIG = SIGMA + "\n"


def _mk_text_measure(n, tiers, timeout):
    def pre(s: str) -> bool:
        return len(s) == n and over(s, _TSIG)

    @xh("C09-text-measure-len%d" % n, pre=pre, tiers=tiers, timeout=timeout, kind="S", stubs=["S1", "S2"],
        functions=["rich/text.py:Text.__rich_measure__", "rich/cells.py:cell_len"],
        bounds="all strings of length %d over {a, b, space, U+4E2D (2 cells), U+0301 (0 cells), newline}: minimum == width of the "
               "widest word, maximum == width of the widest line (reference widths)" % n,
        outside="tabs; longer strings")
    def h(s: str) -> bool:
        m = Text(s).__rich_measure__(None, 1000)
        widest_word = 0
        widest_line = 0
        word = 0
        line = 0
        for ch in s:
            if ch == "\n":
                widest_line = max(widest_line, line)
                line = 0
            else:
                line += 2 if ch == "中" else (0 if ch == "́" else 1)
            if ch == " " or ch == "\n":
                widest_word = max(widest_word, word)
                word = 0
            else:
                word += 2 if ch == "中" else (0 if ch == "́" else 1)
        widest_line = max(widest_line, line)
        widest_word = max(widest_word, word)
        if s.strip() == "":
            return m.minimum == m.maximum
        return m.minimum == widest_word and m.maximum == widest_line
    return h


for _n, _t, _to in [(1, ("quick", "thorough"), 120), (2, ("quick", "thorough"), 300), (3, ("quick", "thorough"), 900),
                    (4, ("thorough",), 2400), (5, ("thorough",), 3400)]:
    _mk_text_measure(_n, _t, _to)


_WORDS = ["hello", "你好世", "ab", "wide", "你好世界", "mix", "a\u0301", "", "x y", "a\nbb"]


@symx("C09-text-measure-words", timeout=900, kind="P", functions=["rich/text.py:Text.__rich_measure__"],
      bounds="texts made of three catalogue words (narrow, double-width, combining) joined by solver-chosen separators from "
             "{space, newline, two spaces}: minimum == widest word, maximum == widest line; rendering at the maximum never wraps")
def c09_words(e):
    ws = [_WORDS[int(e.mk("w%d" % i, 0, len(_WORDS) - 1))] for i in range(3)]
    seps = [[" ", "\n", "  "][int(e.mk("s%d" % i, 0, 2))] for i in range(2)]
    s = ws[0] + seps[0] + ws[1] + seps[1] + ws[2]
    c = cat.console()
    m = Measurement.get(c, Text(s), 200)
    words = s.split()
    lines = s.splitlines()
    if not s.strip():
        return m.minimum == m.maximum
    want_min = max(ref_width_concrete(x) for x in words)
    want_max = max(ref_width_concrete(x) for x in lines)
    if (m.minimum, m.maximum) != (want_min, want_max):
        return False
    # never wrapped: the rendered lines are the text's own lines (trailing blank lines aside)
    rendered = [l.rstrip() for l in cat.render_lines(c, Text(s), m.maximum)]
    want = [l.rstrip() for l in lines]
    while rendered and not rendered[-1]:
        rendered.pop()
    while want and not want[-1]:
        want.pop()
    return rendered == want


# --- a Text measured, edited in place without changing its length, measured again (P) ------------------------------------------
_EDIT_PAIRS = [("aaaa\nbbbb", "ccccccccc"), ("hello world", "hello\nworld"), ("ab cd", "中中 cd"), ("x y z", "xxyzz"),
               ("one two", "onetwo ")]


@symx("C09-text-measure-after-edit", timeout=600, kind="P", functions=["rich/text.py:Text.__rich_measure__", "rich/text.py:Text.plain"],
      bounds="%d pairs of equally long strings (a, b): Text(a) is measured (or not), then changed in place to b - by assigning "
             ".plain, or by right_crop(k) followed by append of b's last k characters for k in 1..3 - and measured again: the "
             "measurement is that of a fresh Text(b), also when nested in a Panel.fit / Padding measured before and after; rendering "
             "at the maximum does not wrap" % len(_EDIT_PAIRS))
def c09_after_edit(e):
    from rich.padding import Padding
    a, b = _EDIT_PAIRS[int(e.mk("pair", 0, len(_EDIT_PAIRS) - 1))]
    if e.mkbool("swap"):
        a, b = b, a
    how = int(e.mk("edit", 0, 3))
    measured_first = bool(e.mkbool("measured_first"))
    c = cat.console()
    t = Text(a)
    holder = Padding(t, (0, 1))
    if measured_first:
        Measurement.get(c, t, 200)
        Measurement.get(c, holder, 200)
    if how == 0:
        t.plain = b
    else:
        k = how
        if a[:len(a) - k] != b[:len(b) - k]:
            t.plain = b[:len(b) - k] + a[len(a) - k:]
        t.right_crop(k)
        t.append(b[len(b) - k:])
    if t.plain != b:
        return False
    fresh = Measurement.get(c, Text(b), 200)
    got = Measurement.get(c, t, 200)
    if tuple(got) != tuple(fresh):
        return False
    mh = Measurement.get(c, holder, 200)
    if (mh.minimum, mh.maximum) != (fresh.minimum + 2, fresh.maximum + 2):
        return False
    rendered = [l.rstrip() for l in cat.render_lines(c, t, got.maximum)]
    return rendered == [l.rstrip() for l in b.splitlines()]


# --- Text options: rendering at the measured minimum / maximum never exceeds it (P) -------------------------------------------
_OPT_TEXTS = ["hello wonderful world", "ab 中中中 cd", "a bb ccc dddd", "supercalifragilistic x"]


@symx("C09-text-options-render-at-measure", timeout=900, kind="P", functions=["rich/text.py:Text.__rich_measure__", "rich/text.py:Text.wrap",
                                                                             "rich/containers.py:Lines.justify", "rich/text.py:Text.truncate"],
      bounds="%d texts x justify in {default, left, center, right, full} x overflow in {fold, crop, ellipsis} x no_wrap, bare and "
             "inside Styled / Align.left / a RenderGroup: rendering at the reported minimum, at the reported maximum and at every "
             "width in between produces no line wider than that width (solver-enumerated, native)" % len(_OPT_TEXTS),
      outside="overflow='ignore' (asks for over-wide lines)")
def c09_text_options(e):
    from rich.align import Align
    from rich.console import RenderGroup
    from rich.styled import Styled
    s = _OPT_TEXTS[int(e.mk("text", 0, len(_OPT_TEXTS) - 1))]
    justify = [None, "left", "center", "right", "full"][int(e.mk("justify", 0, 4))]
    overflow = ["fold", "crop", "ellipsis"][int(e.mk("overflow", 0, 2))]
    no_wrap = bool(e.mkbool("no_wrap"))
    wrap_in = int(e.mk("holder", 0, 3))

    def mk():
        t = Text(s, justify=justify, overflow=overflow, no_wrap=no_wrap)
        return [t, Styled(t, "bold"), Align.left(t), RenderGroup(t)][wrap_in]
    c = cat.console()
    m = Measurement.get(c, mk(), 200)
    if not (0 <= m.minimum <= m.maximum <= 200):
        return False
    at = int(e.mk("at", 0, 30))
    w = m.minimum + at
    if w > m.maximum or w < 1:
        return True
    return all(x <= w for x in cat.widths(cat.render_lines(c, mk(), w)))


_SHRINK = ["hello wonderful world", "a\tbb\tc", "中文 wide 字", "x", "two\nlines here", "á́b zero"]


@symx("C09-text-measure-after-inplace-ops", timeout=600, kind="P",
      functions=["rich/text.py:Text.__rich_measure__", "rich/text.py:Text.right_crop", "rich/text.py:Text.set_length",
                 "rich/text.py:Text.truncate", "rich/text.py:Text.expand_tabs", "rich/text.py:Text.pad"],
      bounds="%d strings: the Text is measured (or not), then edited in place by ONE of right_crop(k), set_length(n), truncate(n, "
             "pad / no pad, each overflow), expand_tabs(size), pad / pad_left / pad_right(k), rstrip - k, n, size solver-enumerated in "
             "0..8 - and measured again: the measurement equals that of a fresh Text of the resulting string (widest word, widest line)"
             % len(_SHRINK),
      outside="sequences of several in-place edits (C09-text-measure-after-edit covers assignment and crop+append)")
def c09_after_inplace(e):
    s = _SHRINK[int(e.mk("string", 0, len(_SHRINK) - 1))]
    op = int(e.mk("op", 0, 8))
    k = int(e.mk("k", 0, 8))
    c = cat.console()
    t = Text(s)
    if e.mkbool("measured_first"):
        Measurement.get(c, t, 200)
    if op == 0:
        t.right_crop(k)
    elif op == 1:
        t.set_length(k)
    elif op == 2:
        t.truncate(k, pad=True)
    elif op == 3:
        t.truncate(k, overflow=["fold", "crop", "ellipsis"][k % 3])
    elif op == 4:
        t.expand_tabs(k + 1)
    elif op == 5:
        t.pad(k)
    elif op == 6:
        t.pad_left(k, "-")
    elif op == 7:
        t.pad_right(k)
    else:
        t.rstrip()
    fresh = Measurement.get(c, Text(t.plain), 200)
    got = Measurement.get(c, t, 200)
    return tuple(got) == tuple(fresh)
