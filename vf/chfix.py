"""Harness-side configuration of CrossHair for Rich (DESIGN.md 2.1).

Nothing here edits /repo.  Each item is a stub listed in the evidence:

S-float : float representation forced to the real-valued model (layout code
          only produces int*int/int quotients fed to round/ceil; lemma L1).
S1      : ``rich.cells.cell_len``'s memo (default argument) replaced by a
          pass-through mapping so symbolic strings are not hashed.
S4      : ``__bool__`` of Rich classes coerced to a real ``bool``.
"""
import importlib
import inspect
import math

APPLIED = []


def unwrap_lru():
    """S2: replace every functools.lru_cache wrapper in rich.* by the function it wraps.

    The C-level cache keeps results across CrossHair iterations (NotDeterministic) and hashes symbolic arguments.
    """
    import functools
    import pkgutil
    import sys
    import rich
    lru = type(functools.lru_cache()(lambda: 0))
    for m in list(pkgutil.iter_modules(rich.__path__)):
        name = "rich." + m.name
        if name not in sys.modules:
            if m.name.startswith("__") or m.name in ("jupyter", "diagnose"):
                continue
            try:
                importlib.import_module(name)
            except Exception:
                continue
        mod = sys.modules[name]
        for k, v in list(vars(mod).items()):
            if isinstance(v, lru) and getattr(v, "__module__", None) == name:
                setattr(mod, k, v.__wrapped__)
            elif inspect.isclass(v) and v.__module__ == name:
                for ck, cv in list(vars(v).items()):
                    if isinstance(cv, lru):
                        setattr(v, ck, cv.__wrapped__)
                    elif isinstance(cv, classmethod) and isinstance(cv.__func__, lru):
                        setattr(v, ck, classmethod(cv.__func__.__wrapped__))
                    elif isinstance(cv, staticmethod) and isinstance(cv.__func__, lru):
                        setattr(v, ck, staticmethod(cv.__func__.__wrapped__))


def apply(real_floats: bool = True, no_cell_cache: bool = True, wrap_bools: bool = True):
    from crosshair.libimpl import builtinslib as _bl
    from crosshair import core as _core

    if real_floats and "S-float" not in APPLIED:
        _bl._PYTYPE_TO_WRAPPER_TYPE[float] = ((_bl.RealBasedSymbolicFloat, 1.0),)

        def _ceil(x):
            if hasattr(x, "__ceil__"):
                return x.__ceil__()
            return x

        def _floor(x):
            if hasattr(x, "__floor__"):
                return x.__floor__()
            return x

        _core._PATCH_REGISTRATIONS[math.ceil] = _ceil
        _core._PATCH_REGISTRATIONS[math.floor] = _floor
        APPLIED.append("S-float")

    if no_cell_cache and "S1" not in APPLIED:
        from rich import cells

        class _NoCache(dict):
            def get(self, k, d=None):
                return d

            def __setitem__(self, k, v):
                pass

        if cells.cell_len.__defaults__ and len(cells.cell_len.__defaults__) == 1:
            cells.cell_len.__defaults__ = (_NoCache(),)
        APPLIED.append("S1")

    if "S2" not in APPLIED:
        unwrap_lru()
        APPLIED.append("S2")

    if wrap_bools and "S4" not in APPLIED:
        for m in ["rich.text", "rich.segment", "rich.style", "rich.measure", "rich.color",
                  "rich.console", "rich.containers", "rich.theme"]:
            mod = importlib.import_module(m)
            for _, cls in inspect.getmembers(mod, inspect.isclass):
                if cls.__module__ != m:
                    continue
                f = cls.__dict__.get("__bool__")
                if f is not None and not getattr(f, "_verif_wrapped", False):
                    def mk(f):
                        def __bool__(self):
                            return True if f(self) else False
                        __bool__._verif_wrapped = True
                        return __bool__
                    try:
                        setattr(cls, "__bool__", mk(f))
                    except (TypeError, AttributeError):
                        pass
        APPLIED.append("S4")
