# Runs every property's thorough tier once, sequentially (each check uses up to 16 processes).
# With VF_REPO set the checks run against that tree (used with `vp run --with-repo`); otherwise against /repo.
for p in ${PROPS:-C16 C20 C10 C09 C18 C03 C15 C19 C01 C07 C08 C14 C06 C13 C04 C12 C05 C02}; do
  start=$(date +%s)
  ./check $p --tier thorough --no-evidence > thorough_$p.log 2>&1
  echo "$p exit=$? wall=$(( $(date +%s) - start ))s $(grep SUMMARY thorough_$p.log | cut -c1-160) $(grep -c INCONCLUSIVE thorough_$p.log) inconclusive-lines"
done
echo ALLDONE
