"""Catalogue of renderable trees for the composition obligations (C01 / C07 / C08 / C09 / C14).

Coverage of the *structure* dimension is exactly this list (kind C+S); widths and numeric options are enumerated by
the solver.  Each entry: (name, factory, structural_minimum).  The structural minimum follows the property's rule
(borders + padding + one cell - two with double-width content - per innermost column) and is rounded UP when in
doubt: checking fewer widths can never raise a false alarm.
"""
import io

from rich import box
from rich.align import Align
from rich.bar import Bar
from rich.columns import Columns
from rich.console import Console, RenderGroup
from rich.constrain import Constrain
from rich.padding import Padding
from rich.panel import Panel
from rich.progress_bar import ProgressBar
from rich.rule import Rule
from rich.styled import Styled
from rich.table import Table
from rich.text import Text
from rich.tree import Tree

from vf.common import ref_width_concrete

ASCII = "hello brave new world"
WIDE = "中文 wide 字 text"
ZERO = "café á́b zero"
MULTI = "line one\nsecond 中 line\n\nlast"
CONTENTS = [ASCII, WIDE, ZERO, MULTI]


def T(i, **kw):
    return Text(CONTENTS[i], **kw)


def _table(**kw):
    cols = kw.pop("cols", 2)
    rows = kw.pop("rows", 2)
    cells = kw.pop("cells", None)
    t = Table(**kw)
    for c in range(cols):
        t.add_column("h%d" % c)
    for r in range(rows):
        t.add_row(*[(cells or CONTENTS)[(r + c) % len(cells or CONTENTS)] for c in range(cols)])
    return t


def _tree():
    t = Tree("root 中")
    a = t.add("child a")
    a.add("grand " + ASCII)
    b = t.add("child b", expanded=False)
    b.add("hidden")
    t.add(WIDE)
    return t


# (name, factory, structural minimum)
TREES = [
    ("text-ascii", lambda: T(0), 1),
    ("text-wide", lambda: T(1), 2),
    ("text-zero", lambda: T(2), 1),
    ("text-multiline", lambda: T(3), 2),
    ("text-right-ellipsis", lambda: T(1, justify="right", overflow="ellipsis"), 2),
    ("text-full-justify", lambda: T(0, justify="full"), 1),
    ("text-nowrap-crop", lambda: T(1, no_wrap=True, overflow="crop"), 2),
    ("panel-text", lambda: Panel(T(0)), 3),
    ("panel-wide-fit", lambda: Panel.fit(T(1)), 4),
    ("panel-title-long", lambda: Panel(T(0), title="Quarterly revenue by region"), 7),
    ("panel-title-wide-left", lambda: Panel(T(2), title="标题 title", title_align="left", padding=(0, 2)), 11),
    ("panel-fit-title-longer-than-body", lambda: Panel.fit("ok", title="a much longer title than body"), 7),
    ("panel-nested", lambda: Panel(Panel(T(3), box=box.ASCII), box=box.DOUBLE, padding=1), 8),
    ("panel-width", lambda: Panel(T(0), width=18), 3),
    ("padding-1", lambda: Padding(T(1), 1), 4),
    ("padding-4tuple", lambda: Padding(T(0), (0, 3, 1, 2)), 6),
    ("padding-noexpand", lambda: Padding(T(2), (0, 1), expand=False), 3),
    ("align-center", lambda: Align.center(T(0)), 1),
    ("align-right-width", lambda: Align.right(T(1), width=12), 2),
    ("constrain", lambda: Constrain(T(0), 10), 1),
    ("styled", lambda: Styled(T(1), "bold"), 2),
    ("rule-plain", lambda: Rule(), 1),
    ("rule-title", lambda: Rule("Section 中 title"), 5),
    ("rule-wide-chars", lambda: Rule(characters="中"), 2),
    ("rule-two-chars-left", lambda: Rule("t", characters="ab", align="left"), 5),
    ("rule-right", lambda: Rule("title", align="right"), 5),
    ("bar", lambda: Bar(100, 20, 60), 1),
    ("bar-width", lambda: Bar(10, 0, 3, width=15), 1),
    ("progressbar", lambda: ProgressBar(total=10, completed=3), 1),
    ("progressbar-width", lambda: ProgressBar(total=10, completed=10, width=12), 1),
    ("progressbar-pulse", lambda: ProgressBar(total=10, completed=0, pulse=True), 1),
    ("tree", _tree, 10),
    ("columns-3", lambda: Columns(["one", "two 中", "three"]), 5),
    ("columns-5-equal", lambda: Columns(["a", "bb", "ccc", "dd 中", "e"], equal=True, expand=True), 6),
    ("columns-column-first", lambda: Columns(["a1", "b2", "c3", "d4", "e5"], column_first=True, padding=(0, 2)), 2),
    ("columns-rtl-title", lambda: Columns(["x", "yy", "zzz"], right_to_left=True, title="T"), 3),
    ("group", lambda: RenderGroup(T(0), Panel(T(1)), Rule("r")), 5),
    ("group-fit", lambda: RenderGroup(T(0), T(1), fit=False), 2),
    ("table-2x2", lambda: _table(), 2 + 3 + 2 * 3),
    ("table-nobox", lambda: _table(box=None, show_header=False), 2 * 4),
    ("table-ascii-lines", lambda: _table(box=box.ASCII, show_lines=True, cols=3), 4 + 3 * 4),
    ("table-expand", lambda: _table(expand=True), 3 + 2 * 4),
    ("table-noedge-nopadedge", lambda: _table(show_edge=False, pad_edge=False, cols=3, rows=1), 2 + 3 * 4),
    ("table-collapse-title", lambda: _table(collapse_padding=True, padding=(0, 2), title="Title 中", caption="cap"), 3 + 2 * 6),
    ("table-leading-footer", lambda: _table(leading=1, show_footer=True, box=box.SIMPLE), 3 + 2 * 4),
    ("table-nested-panel", lambda: _table(cells=[Panel(T(0)), T(1), "x"], rows=1), 3 + 2 * 6),
    ("table-1col-0rows", lambda: _table(cols=1, rows=0), 2 + 3),
    ("panel-table", lambda: Panel(_table(box=box.MINIMAL)), 2 + 3 + 2 * 4),
    ("padding-panel-table", lambda: Padding(Panel(Align.center(_table(cols=1))), (0, 1)), 4 + 2 + 4),
    ("tree-of-panels", lambda: (lambda t: (t.add(Panel(T(1))), t)[1])(Tree(Panel("root"))), 4 + 4),
    ("grid", lambda: (lambda g: (g.add_row(T(0), T(1)), g)[1])(Table.grid(padding=(0, 1))), 6),
    ("grid-expand-empty", lambda: (lambda g: (g.add_column(), g.add_column(), g.add_row("", ""), g)[3])(Table.grid(expand=True)), 2),
    ("table-minwidth", lambda: _table(min_width=30, cols=3), 4 + 3 * 4),
    ("columns-fixed-width", lambda: Columns(["a", "bb", "ccc 中"], width=10), 10),
    ("table-no-columns-expand", lambda: Table(expand=True), 2),
    ("table-no-columns-title", lambda: Table(title="empty", box=box.ASCII), 2),
    ("columns-empty", lambda: Columns([]), 1),
    ("tree-leaf", lambda: Tree("only"), 4),
    ("table-ratio-expand", lambda: (lambda t: (t.add_column("k", ratio=1), t.add_column("v", ratio=30), t.add_row("kabcde", ASCII), t)[3])(
        Table(expand=True, box=box.ASCII2)), 3 + 2 * 3),
    # guide styles: every combination of the two attributes that select a guide set, directly and inherited
    ("tree-guide-bold-underline2", lambda: (lambda t: (t.add("a", guide_style="underline2").add("b"), t.add("c"), t)[2])(
        Tree("root", guide_style="bold underline2")), 8 + 1),
    ("tree-guide-inherited", lambda: (lambda t: (t.add("a", guide_style="underline2").add("b").add("c"), t)[1])(
        Tree("root", guide_style="bold", style="italic")), 12 + 1),
]
NAMES = [n for n, _, _ in TREES]


def console(**kw):
    kw.setdefault("width", 80)
    kw.setdefault("color_system", None)
    kw.setdefault("force_terminal", False)
    kw.setdefault("legacy_windows", False)
    return Console(file=io.StringIO(), _environ={}, **kw)


def render_lines(c, renderable, width):
    """Console.render -> plain lines (no final crop by Console.print)."""
    opts = c.options.update(width=width)
    text = "".join(seg.text for seg in c.render(renderable, opts) if not seg.is_control)
    lines = text.split("\n")
    if lines and lines[-1] == "":
        lines.pop()
    return lines


def widths(lines):
    return [ref_width_concrete(l) for l in lines]
