# edited by hand; consumed by tools_mkmanifest.py
_NOTE = ("Trusted: CPython, z3 5.1, CrossHair's models of str/int/list, the harness-side stubs listed per obligation in the "
         "evidence (cell_len memo pass-through, real-valued floats for int*int/int quotients, lru_cache bypass). "
         "Claims hold only inside the bounds stated per obligation.")
CLAIMED["C13"] = (
 "bounded symbolic execution of rich.cells / rich.segment with z3 (symx over all code points; CrossHair over symbolic strings)",
 "Every code point 0..0x10FFFF is decided symbolically against a linear scan of the width table; set_cell_size / chop_cells / "
 "segment shaping are decided for all strings over a mixed-width alphabet up to a stated length and all sizes in range.",
 _NOTE, "DESIGN.md 5 C13")
CLAIMED["C06"] = (
 "bounded symbolic execution of Style.__add__/__eq__/__hash__ over all 13-bit attribute masks (symx, z3 BitVec + uninterpreted hash); CrossHair-enumerated parse/str round trips",
 "Associativity, identity, right bias and hash consistency of every construction route are decided for ALL attribute masks and all "
 "None/token combinations of colour, bgcolor, link; color(n) and rgb(r,g,b) parsing for all n, r, g, b symbolically; str/normalize "
 "round trips for every style with at most two attributes and 10 colour spellings.",
 _NOTE + " hash() is an uninterpreted function in the symbolic run (S5); counterexamples are replayed with the real hash.", "DESIGN.md 5 C06")
CLAIMED["C18"] = (
 "symbolic execution of Color.downgrade / Palette.match / get_ansi_codes with z3 (Float64 semantics for truecolor->256, BitVec for the weighted metric)",
 "For all 2^24 colours: conversion to 16-colour palettes is in gamut, idempotent and picks an entry of minimal documented distance; all 256 indexed colours likewise; "
 "SGR parameters for every colour kind. Truecolor->256 with exact IEEE semantics: greys in the quick tier, all 2^24 colours in the thorough tier.",
 _NOTE + " L2: sqrt replaced by an order-isomorphic stub.", "DESIGN.md 5 C18")
_PENDING = "check not built yet in this session (planned, DESIGN.md 5); not claimed until its obligations run"
for _p in ["C01","C02","C03","C04","C05","C07","C08","C09","C10","C12","C14","C15","C16","C19","C20"]:
    NA[_p] = _PENDING
NA["C11"] = "quantifies over thread schedules of the real console/live code; no engine here can make the schedule a solver variable (DESIGN.md 6)"
NA["C17"] = "decided by third-party Pygments lexers (C regex engine) and linecache; cannot be executed symbolically (DESIGN.md 6)"
