"""Known findings (genuine defects recorded rather than repaired).  Read-only at run time."""
import json
import os

_PATH = os.path.join(os.path.dirname(os.path.dirname(os.path.abspath(__file__))), "known_findings.json")


def entries(prop=None):
    if not os.path.exists(_PATH):
        return []
    out = json.load(open(_PATH)).get("findings", [])
    return [k for k in out if k.get("status", "open") == "open" and (prop is None or k.get("property") == prop)]


def skip(obligation_prefix, variables) -> bool:
    """True when the harness state matches a listed finding (exactly the listed failing situation, nothing wider).
    Disabled with VF_NO_KNOWN=1, which the runner sets when it re-confirms that the finding still reproduces."""
    if os.environ.get("VF_NO_KNOWN") == "1":
        return False
    for k in entries():
        if k.get("obligation", "").startswith(obligation_prefix) or obligation_prefix.startswith(k.get("obligation", "\0")):
            expr = k.get("exclude_pre")
            if expr and eval(expr, {}, dict(variables)):
                return True
    return False
