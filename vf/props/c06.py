"""C06 - style algebra, text round-trip, hash consistency (DESIGN.md 5, C06)."""
import z3

import rich.style as style_mod
from rich.color import Color
from rich.style import Style, NULL_STYLE

from vf.obl import symx, xh
from vf.symx import SymBool, SymInt, sym_and, sym_implies, sym_not, sym_or, _z

F_ALG = ["rich/style.py:Style.__add__", "rich/style.py:Style.__eq__", "rich/style.py:Style.__hash__"]
ATTRS = ["bold", "dim", "italic", "underline", "blink", "blink2", "reverse", "conceal", "strike", "underline2",
         "frame", "encircle", "overline"]
COLORS = {1: Color.parse("red"), 2: Color.parse("#0000ff")}
LINKS = {1: "a", 2: "b"}
BV = 16
STUBS = ["S5: hash() as seen by rich.style is an uninterpreted pairing function folded over the hashed tuple "
         "(models are replayed with the real hash on real Style objects)",
         "colours and links are opaque tokens (None or one of two distinct values); base styles are built with "
         "Style.__new__ + slots exactly as Style.__init__ leaves them (checked by C06-init-invariant); in replay mode they "
         "are built by the real constructor"]


# --- hash stub --------------------------------------------------------------------------------
class _uf_hash:
    def __init__(self, e):
        self.e = e

    def __enter__(self):
        e = self.e
        if e.concrete is not None:
            return self
        s = z3.BitVecSort(BV)
        pair = e.memo.get("pair")
        if pair is None:
            pair = e.memo["pair"] = z3.Function("hpair", s, s, s)

        def enc(x):
            if x is None:
                return z3.BitVecVal(0xFFFF, BV)
            if isinstance(x, SymInt):
                return x.z
            if isinstance(x, bool):
                return z3.BitVecVal(int(x) + 0x7000, BV)
            if isinstance(x, int):
                return z3.BitVecVal(x & 0x1FFF, BV)
            if isinstance(x, tuple):
                cur = z3.BitVecVal(0x6000 + len(x), BV)
                for it in x:
                    cur = pair(cur, enc(it))
                return cur
            return z3.BitVecVal(hash(x) & 0x0FFF | 0x4000, BV)

        def sym_hash(x):
            if isinstance(x, tuple):
                return SymInt(e, enc(x))
            if isinstance(x, Style):
                return x.__hash__()
            return hash(x)
        style_mod.hash = sym_hash
        # the module-level NULL_STYLE was hashed at import time with the real hash: re-hash it under the stub
        self.saved_null = NULL_STYLE._hash
        NULL_STYLE._hash = sym_hash((None, None, 0, 0, None))
        return self

    def __exit__(self, *a):
        if "hash" in style_mod.__dict__:
            del style_mod.hash
            NULL_STYLE._hash = self.saved_null


def bool_of(st):
    """truthiness of a Style without forking when it is concrete"""
    return True if st else False


def _h(x):
    """hash of a Style as Python would compute it (proxy-aware)."""
    return x.__hash__()


# --- symbolic base styles -------------------------------------------------------------------------
def _token(e, name, table):
    """None or a token 1..2 (symbolic); real objects in replay mode."""
    present = e.mkbool(name + "_set")
    tok = e.mk(name, 1, 2)
    if not present:
        return None
    if isinstance(tok, int):
        return table[tok]
    return tok


def mk_style(e, p):
    """A style as Style.__init__ would leave it, with symbolic fields."""
    color = _token(e, p + "c", COLORS)
    bgcolor = _token(e, p + "b", COLORS)
    link = _token(e, p + "l", LINKS)
    s = e.mk(p + "s", 0, 0x1FFF)
    a = e.mk(p + "a", 0, 0x1FFF)
    e.assume((a & s) == a)  # only attributes that are set can be on
    if isinstance(s, int):
        kw = {ATTRS[i]: bool(a >> i & 1) for i in range(13) if s >> i & 1}
        return Style(color=color, bgcolor=bgcolor, link=link, **kw)
    st = Style.__new__(Style)
    st._ansi = None
    st._style_definition = None
    st._color = color
    st._bgcolor = bgcolor
    st._set_attributes = s
    st._attributes = a
    st._link = link
    st._link_id = "id-" + p if link is not None else ""
    st._hash = style_mod.hash((color, bgcolor, a, s, link)) if "hash" in style_mod.__dict__ else 0
    st._null = not (s or color or bgcolor or link)
    return st


def _same_fields(x, y):
    return sym_and(_feq(x._color, y._color), _feq(x._bgcolor, y._bgcolor), _feq(x._link, y._link),
                   x._set_attributes == y._set_attributes,
                   (x._attributes & x._set_attributes) == (y._attributes & y._set_attributes))


def _feq(a, b):
    if a is None or b is None:
        return a is None and b is None
    return a == b


# --- associativity, identity ---------------------------------------------------------------------
@symx("C06-assoc", timeout=900, kind="S", functions=F_ALG, opts={"bv": BV}, stubs=STUBS,
      bounds="all triples of styles: 13-bit set/value masks fully symbolic, colour/bgcolor/link each None or one of two tokens")
def c06_assoc(e):
    with _uf_hash(e):
        x, y, z = mk_style(e, "x"), mk_style(e, "y"), mk_style(e, "z")
        l = (x + y) + z
        r = x + (y + z)
        return sym_and(l == r, _same_fields(l, r), _h(l) == _h(r))


@symx("C06-identity", timeout=300, kind="S", functions=F_ALG, opts={"bv": BV}, stubs=STUBS,
      bounds="all styles x: x+NULL == x == NULL+x, x+None == x, Style()+x == x")
def c06_identity(e):
    with _uf_hash(e):
        x = mk_style(e, "x")
        a, b, c, d = x + NULL_STYLE, NULL_STYLE + x, x + None, Style() + x
        ok = sym_and(a == x, b == x, c == x, d == x)
        return sym_and(ok, _h(a) == _h(x), _h(b) == _h(x), _h(d) == _h(x))


@symx("C06-right-bias", timeout=900, kind="S", functions=F_ALG + ["rich/style.py:_Bit.__get__"], opts={"bv": BV},
      stubs=STUBS, bounds="all pairs of styles; every one of the 13 attributes (index solver-enumerated), colour, bgcolor, link")
def c06_right_bias(e):
    with _uf_hash(e):
        x, y = mk_style(e, "x"), mk_style(e, "y")
        i = int(e.mk("i", 0, 12))
        r = x + y
        name = ATTRS[i]
        want = getattr(y, name)
        if want is None:
            want = getattr(x, name)
        got = getattr(r, name)
        ok = (got is None and want is None) or (got is not None and want is not None and got == want)
        ok = sym_and(ok, _feq(r.color, y.color if y.color is not None else x.color))
        ok = sym_and(ok, _feq(r.bgcolor, y.bgcolor if y.bgcolor is not None else x.bgcolor))
        ok = sym_and(ok, _feq(r.link, y.link if y.link is not None else x.link))
        return ok


# --- hash consistency: every construction route against an independently built equal style ----------
def _route(name):
    def add(e):
        return mk_style(e, "p") + mk_style(e, "q")

    def copy(e):
        return mk_style(e, "p").copy()

    def update_link(e):
        return mk_style(e, "p").update_link(_token(e, "nl", LINKS))

    def without_color(e):
        return mk_style(e, "p").without_color

    def from_color(e):
        return Style.from_color(_token(e, "fc", COLORS), _token(e, "fb", COLORS))

    def chain(e):
        return Style.chain(mk_style(e, "p"), mk_style(e, "q"))

    def combine(e):
        return Style.combine([mk_style(e, "p"), mk_style(e, "q")])

    def background_style(e):
        return mk_style(e, "p").background_style
    return locals()[name]


def _mk_hash(name, timeout=1500, operands=None, tiers=None):
    route = _route(name)
    if operands is None:
        operands = name in ("copy", "without_color", "from_color")
    if tiers is None:
        tiers = ("thorough",) if name in ("chain", "combine") else ("quick", "thorough")

    @symx("C06-hash-%s%s" % (name, "-operands" if (operands and name == "update_link") else ""), timeout=timeout, kind="S",
          opts={"bv": BV}, stubs=STUBS, tiers=tiers,
          functions=F_ALG + ["rich/style.py:Style.%s" % name.replace("add", "__add__")],
          bounds="all argument styles of the route (13-bit masks, colour/bgcolor/link tokens) x all independently built styles z: "
                 "route(args) == z  implies  hash(route(args)) == hash(z), and == is symmetric; for copy / update_link / "
                 "without_color / from_color additionally: equal styles behave equally as left and right operands of + (truthiness is not "
                 "compared: update_link(None) / without_color of a style with nothing else set is equal to the null style but "
                 "truthy, which the property does not forbid)",
          signature=lambda m, name=name: "hash route=%s" % name)
    def h(e):
        with _uf_hash(e):
            r = route(e)
            z = mk_style(e, "z")
            eq = (r == z)
            eq2 = (z == r)
            extra = True
            if operands:
                # equal styles must also BEHAVE equally as operands (a wrong internal null flag would show here)
                w = mk_style(e, "w")
                same_ops = sym_and((w + r) == (w + z), (r + w) == (z + w))
                extra = (same_ops if eq else True) if isinstance(eq, bool) else sym_implies(eq, same_ops)
            if isinstance(eq, bool) and isinstance(eq2, bool):
                base = (eq == eq2) and ((not eq) or _h(r) == _h(z))
                return sym_and(base, extra) if base else False
            return sym_and(eq == eq2, sym_implies(eq, _h(r) == _h(z)), extra)
    return h


for _r in ["add", "copy", "update_link", "without_color", "from_color", "chain", "combine"]:
    _mk_hash(_r)
_mk_hash("update_link", timeout=2400, operands=True, tiers=("thorough",))


# --- the base representation really is what Style.__init__ builds (P) ------------------------------
@symx("C06-init-invariant", timeout=600, kind="P", functions=["rich/style.py:Style.__init__"], opts={"bv": BV},
      bounds="Style(**kw) for all tri-state values of 3 attributes (bold, italic, overline) x colour/bgcolor/link tokens "
             "(solver-enumerated): slots equal the harness's base representation; equal kwargs give equal styles and hashes",
      stubs=[])
def c06_init(e):
    sel = [int(e.mk("t%d" % i, 0, 2)) for i in range(3)]   # 0 unset, 1 False, 2 True
    c, b, l = int(e.mk("c", 0, 2)), int(e.mk("b", 0, 2)), int(e.mk("l", 0, 2))
    names = ["bold", "italic", "overline"]
    kw = {n: (v == 2) for n, v in zip(names, sel) if v}
    st = Style(color=COLORS.get(c), bgcolor=COLORS.get(b), link=LINKS.get(l), **kw)
    st2 = Style(color=COLORS.get(c), bgcolor=COLORS.get(b), link=LINKS.get(l), **kw)
    s_mask = sum(1 << ATTRS.index(n) for n in kw)
    a_mask = sum(1 << ATTRS.index(n) for n, v in kw.items() if v)
    ok = (st._set_attributes == s_mask and st._attributes == a_mask and st._color == COLORS.get(c)
          and st._bgcolor == COLORS.get(b) and st._link == LINKS.get(l)
          and st._null == (not (s_mask or c or b or l)) and st == st2 and hash(st) == hash(st2)
          and bool(st) == (not st._null))
    for n in names:
        ok = ok and getattr(st, n) == kw.get(n)
    return ok


# --- text round trip (P, xh) --------------------------------------------------------------------------
from rich.color import ANSI_COLOR_NAMES, ColorType  # noqa: E402
from rich.color_triplet import ColorTriplet  # noqa: E402

F_PARSE = ["rich/style.py:Style.parse", "rich/style.py:Style.__str__", "rich/style.py:Style.normalize",
           "rich/color.py:Color.parse"]


from vf.common import native, pin, pinb, style_parse as _style_parse, style_normalize as _normalize, color_parse as _color_parse  # noqa: E402


def _pre_attrs(i: int, j: int, vi: bool, vj: bool) -> bool:
    return 0 <= i <= 13 and 0 <= j <= 13


@xh("C06-roundtrip-attributes", pre=_pre_attrs, timeout=600, kind="P", functions=F_PARSE,
    bounds="every style with at most two of the 13 attributes set (indices and on/off values solver-enumerated): "
           "parse(str(s)) == s and parse(normalize(str(s))) == s, hashes equal",
    outside="three or more attributes at once; covered for the mask algebra by C06-assoc")
def c06_rt_attrs(i: int, j: int, vi: bool, vj: bool) -> bool:
    return native(_rt_attrs, pin(i, 0, 13), pin(j, 0, 13), pinb(vi), pinb(vj))


def _rt_attrs(i, j, vi, vj):
    kw = {}
    if i < 13:
        kw[ATTRS[i]] = vi
    if j < 13:
        kw[ATTRS[j]] = vj
    s = Style(**kw)
    t = _style_parse(str(s))
    u = _style_parse(_normalize(str(s)))
    return t == s and u == s and hash(t) == hash(s) and hash(u) == hash(s)


_SPELL = [None, "default", "red", "bright_blue", "color(5)", "color(100)", "#ff0000", "rgb(1,2,3)", "RED", " blue"]


def _pre_cols(c: int, b: int, link: bool, bold: bool) -> bool:
    return 0 <= c < len(_SPELL) and 0 <= b < len(_SPELL)


@xh("C06-roundtrip-colors", pre=_pre_cols, timeout=600, kind="P", functions=F_PARSE,
    bounds="colour and bgcolor each from %d spellings (unset, default, named, bright, color(n) standard and 8-bit, #rrggbb, "
           "rgb(), upper case, padded), optional link, optional bold: parse(str(s)) == s and normalize round trip" % len(_SPELL))
def c06_rt_cols(c: int, b: int, link: bool, bold: bool) -> bool:
    return native(_rt_cols, pin(c, 0, len(_SPELL) - 1), pin(b, 0, len(_SPELL) - 1), pinb(link), pinb(bold))


def _rt_cols(c, b, link, bold):
    kw = {}
    if _SPELL[c] is not None:
        kw["color"] = _SPELL[c]
    if _SPELL[b] is not None:
        kw["bgcolor"] = _SPELL[b]
    if link:
        kw["link"] = "http://x/Some/README.md?z=CVE-1"
    if bold:
        kw["bold"] = True
    s = Style(**kw)
    t = _style_parse(str(s))
    u = _style_parse(_normalize(str(s)))
    return t == s and u == s and hash(t) == hash(s)


_NAMES = sorted(ANSI_COLOR_NAMES)


def _pre_name(k: int) -> bool:
    return 0 <= k < len(_NAMES)


@xh("C06-color-names", pre=_pre_name, timeout=600, kind="P", functions=["rich/color.py:Color.parse"],
    bounds="all %d documented colour names (index solver-enumerated): parses to the standard / 8-bit colour with the "
           "documented number, as foreground and as 'on <name>' background" % len(_NAMES))
def c06_names(k: int) -> bool:
    return native(_names, pin(k, 0, len(_NAMES) - 1))


def _names(k):
    name = _NAMES[k]
    num = ANSI_COLOR_NAMES[name]
    s = _style_parse(name + " on " + name)
    c = s.color
    want_type = ColorType.STANDARD if num < 16 else ColorType.EIGHT_BIT
    return (c is not None and c.number == num and c.type == want_type and s.bgcolor == c and c.name == name
            and s == Style(color=name, bgcolor=name))


_ALIASES = {"b": "bold", "d": "dim", "i": "italic", "u": "underline", "uu": "underline2", "s": "strike", "r": "reverse",
            "o": "overline", "c": "conceal"}
_WORDS = sorted(set(ATTRS) | set(_ALIASES))


def _pre_word(k: int, neg: bool) -> bool:
    return 0 <= k < len(_WORDS)


@xh("C06-attribute-spellings", pre=_pre_word, timeout=300, kind="P", functions=["rich/style.py:Style.parse"],
    bounds="all %d attribute words and documented one/two-letter aliases, plain and after 'not'" % len(_WORDS))
def c06_words(k: int, neg: bool) -> bool:
    return native(_words, pin(k, 0, len(_WORDS) - 1), pinb(neg))


def _words(k, neg):
    w = _WORDS[k]
    full = _ALIASES.get(w, w)
    s = _style_parse(("not " if neg else "") + w)
    return s == Style(**{full: not neg}) and getattr(s, full) == (not neg)


def _pre_n(n: int) -> bool:
    return 0 <= n <= 255


@xh("C06-parse-color-number", pre=_pre_n, timeout=300, kind="S", functions=["rich/color.py:Color.parse", "rich/color.py:RE_COLOR"],
    bounds="color(n) for every n in 0..255 (decimal rendering symbolic)")
def c06_color_n(n: int) -> bool:
    c = _color_parse("color(" + str(n) + ")")
    return c.number == n and c.triplet is None and c.type == (ColorType.STANDARD if n < 16 else ColorType.EIGHT_BIT)


def _pre_rgb(r: int, g: int, b: int) -> bool:
    return 0 <= r <= 255 and 0 <= g <= 255 and 0 <= b <= 255


@xh("C06-parse-rgb", pre=_pre_rgb, timeout=300, kind="S", functions=["rich/color.py:Color.parse", "rich/color.py:RE_COLOR"],
    bounds="rgb(r,g,b) for every r,g,b in 0..255 (decimal rendering symbolic)")
def c06_rgb(r: int, g: int, b: int) -> bool:
    c = _color_parse("rgb(" + str(r) + "," + str(g) + "," + str(b) + ")")
    return c.type == ColorType.TRUECOLOR and c.triplet == ColorTriplet(r, g, b) and c.number is None


# --- string form of DERIVED styles, with and without the source's string form cached first (P, symx) --------------------
_D_ATTR = [None, ("bold", True), ("bold", False), ("italic", True)]
_D_COL = [None, "red", "#010203"]
_D_LINK = [None, "http://x/A?b=1"]


def _d_style(e, p, with_bg=True):
    kw = {}
    a = _D_ATTR[int(e.mk(p + "_attr", 0, len(_D_ATTR) - 1))]
    if a:
        kw[a[0]] = a[1]
    col, bg = _D_COL[int(e.mk(p + "_fg", 0, 2))], (_D_COL[int(e.mk(p + "_bg", 0, 2))] if with_bg else None)
    if col:
        kw["color"] = col
    if bg:
        kw["bgcolor"] = bg
    link = _D_LINK[int(e.mk(p + "_link", 0, 1))]
    if link:
        kw["link"] = link
    return Style(**kw)


@symx("C06-roundtrip-derived-styles", timeout=900, kind="P", functions=F_PARSE + ["rich/style.py:Style.update_link", "rich/style.py:Style.without_color",
                                                                                 "rich/style.py:Style.copy", "rich/style.py:Style.__add__"],
      bounds="style s and t (each: attribute from {none, bold on/off, italic on} x colour (and for s bgcolor) from {unset, named, "
             "#rrggbb} x link on/off); optionally str(s) and str(t) are taken first (which caches the definition on the objects); then d is derived "
             "by one of {s.update_link(url), s.update_link(None), s.without_color, s.copy(), s + t, Style.chain(s, t), "
             "Style.combine([s, t])}: parse(str(d)) == d, parse(normalize(str(d))) == d, equal hashes, and str(s) is unchanged "
             "(solver-enumerated, native)")
def c06_rt_derived(e):
    how = int(e.mk("derivation", 0, 6))
    s = _d_style(e, "s")
    t = _d_style(e, "t", with_bg=False) if how >= 4 else Style()
    warm = bool(e.mkbool("str_taken_first"))
    if warm:
        s0, _t0 = str(s), str(t)
    if how == 0:
        d = s.update_link("http://y/Other")
    elif how == 1:
        d = s.update_link(None)
    elif how == 2:
        d = s.without_color
    elif how == 3:
        d = s.copy()
    elif how == 4:
        d = s + t
    elif how == 5:
        d = Style.chain(s, t)
    else:
        d = Style.combine([s, t])
    text = str(d)
    p1 = Style.parse(text)
    p2 = Style.parse(Style.normalize(text))
    if not (p1 == d and p2 == d and hash(p1) == hash(d) and hash(p2) == hash(d)):
        return False
    if warm and str(s) != s0:
        return False
    return Style.parse(str(s)) == s
