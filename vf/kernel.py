"""Shared symx harness pieces for the layout kernels (C01 / C07 / C09): stub renderables with symbolic measurements (S7)."""
import io

from rich.console import Console
from rich.measure import Measurement
from rich.table import Table

from vf.symx import sym_and, sym_implies, sym_or


class SymCell:
    """S7: a renderable whose __rich_measure__ returns solver-chosen numbers.  Measurement.get / normalize /
    with_maximum / clamp and everything above them run for real."""

    def __init__(self, mn, mx):
        self.mn, self.mx = mn, mx

    def __rich_console__(self, console, options):
        yield ""

    def __rich_measure__(self, console, max_width):
        return Measurement(self.mn, self.mx)


def console():
    return Console(file=io.StringIO(), width=100, color_system=None, legacy_windows=False, force_terminal=False)


def mk_table(e, n, opts, cell_lo=0, cell_hi=40):
    """A real Table with n flexible columns and one row of stub cells; returns (table, cells)."""
    t = Table(box=None, show_header=False, expand=opts.get("expand", False), padding=opts.get("padding", 0),
              collapse_padding=opts.get("collapse_padding", False), pad_edge=opts.get("pad_edge", True),
              min_width=opts.get("min_width"))
    ratios = opts.get("ratios") or [None] * n
    colmax = opts.get("col_max") or [None] * n
    colmin = opts.get("col_min") or [None] * n
    for i in range(n):
        t.add_column(ratio=ratios[i], max_width=colmax[i], min_width=colmin[i])
    cells = []
    for i in range(n):
        a = e.mk("min%d" % i, cell_lo, cell_hi)
        b = e.mk("max%d" % i, cell_lo, cell_hi)
        e.assume(a <= b)
        cells.append(SymCell(a, b))
    t.add_row(*cells)
    return t, cells


def structural_min(t, n):
    """borders/padding plus one cell per column (the property's structural minimum for the column-width budget);
    a column with an explicit min_width cannot be narrower than that, so it counts with its min_width."""
    total = 0
    for i in range(n):
        need = 1
        cm = t.columns[i].min_width
        if cm is not None:
            need = max(need, cm)
        total = total + need + t._get_padding_width(i)
    return total
