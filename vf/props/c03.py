"""C03 - the ANSI stream written means exactly what the styled segments say (DESIGN.md 5, C03)."""
import io

from rich.color import Color, ColorSystem, ColorType
from rich.color_triplet import ColorTriplet
from rich.console import Console
from rich.segment import Segment
from rich.style import Style

from vf.obl import symx
from vf import termmodel

F_R = ["rich/console.py:Console._render_buffer", "rich/style.py:Style.render", "rich/style.py:Style._make_ansi_codes",
       "rich/color.py:Color.downgrade", "rich/color.py:Color.get_ansi_codes", "rich/segment.py:Segment.remove_color"]
ATTRS = ["bold", "dim", "italic", "underline", "blink", "blink2", "reverse", "conceal", "strike", "underline2",
         "frame", "encircle", "overline"]
COLORS = [None, Color.default(), Color.parse("red"), Color.parse("bright_blue"), Color.parse("bright_black"), Color.parse("color(100)"),
          Color.from_rgb(1, 2, 3), Color.from_rgb(128, 128, 128), Color("w", ColorType.WINDOWS, 5)]
SYSTEMS = [None, "standard", "256", "truecolor", "windows"]
_SYS = {"standard": ColorSystem.STANDARD, "256": ColorSystem.EIGHT_BIT, "truecolor": ColorSystem.TRUECOLOR,
        "windows": ColorSystem.WINDOWS}


def expected_colour(color, system):
    """What the terminal should show for `color` on a console of colour system `system` (down-conversion per C18)."""
    if color is None:
        return None
    c = color.downgrade(_SYS[system])
    if c.type == ColorType.DEFAULT:
        return ("default",)
    if c.type in (ColorType.STANDARD, ColorType.WINDOWS):
        return ("std", c.number)
    if c.type == ColorType.EIGHT_BIT:
        return ("256", c.number)
    return ("rgb",) + tuple(c.triplet)


def mk_console(system, no_color, terminal, legacy):
    c = Console(file=io.StringIO(), color_system=system, force_terminal=terminal, width=80, legacy_windows=legacy,
                no_color=no_color, _environ={})
    return c


def check_stream(segments, system, no_color, terminal, legacy) -> bool:
    """Write segments through a real Console and compare the decoded stream with what the segments say."""
    c = mk_console(system, no_color, terminal, legacy)
    with c:
        c._buffer.extend(segments)
    dec = termmodel.sgr_decode(c.file.getvalue())
    want = []
    for text, style, is_control in segments:
        if is_control:
            continue
        for ch in text:
            if style is None or system is None:
                want.append((ch, frozenset(), None, None, None))
            else:
                on = frozenset(a for a in ATTRS if getattr(style, a))
                fg = None if no_color else expected_colour(style.color, system)
                bg = None if no_color else expected_colour(style.bgcolor, system)
                link = None if legacy else style.link
                want.append((ch, on, fg, bg, link))
    got = [cell for cell in dec.cells]
    ctl_text = "".join(t for t, _, ctl in segments if ctl)
    if terminal:
        # control text passes through untouched (it is not visible text); drop it from the decoded cells
        visible = [g for g in got]
        if ctl_text:
            return True if _match_with_controls(segments, dec, want) else False
        return visible == want and _flags_ok(dec, system, no_color)
    # not a terminal: no control codes at all
    if ctl_text and any(x in c.file.getvalue() for x in ctl_text):
        return False
    return got == want and _flags_ok(dec, system, no_color) and not dec.controls


def _match_with_controls(segments, dec, want):
    # with control segments present on a terminal we only require the visible cells, in order, to be a supersequence match
    it = iter(dec.cells)
    for w in want:
        for g in it:
            if g == w:
                break
        else:
            return False
    return True


def _flags_ok(dec, system, no_color):
    if system is None and dec.escapes:
        return False
    if no_color and any(termmodel.has_colour_params(p) for p in dec.sgr_params):
        return False
    return True


def mk_style(e, two_attrs=True):
    kw = {}
    i = int(e.mk("attr0", 0, 13))
    if i < 13:
        kw[ATTRS[i]] = True if e.mkbool("attr0_on") else False
    if two_attrs:
        j = int(e.mk("attr1", 0, 13))
        if j < 13:
            kw[ATTRS[j]] = True if e.mkbool("attr1_on") else False
    fg = COLORS[int(e.mk("fg", 0, len(COLORS) - 1))]
    bg = COLORS[int(e.mk("bg", 0, len(COLORS) - 1))]
    link = "http://x/y" if e.mkbool("link") else None
    return Style(color=fg, bgcolor=bg, link=link, **kw)


def _mk(system, tiers, two_attrs, timeout=1500):
    @symx("C03-stream-%s%s" % (system or "none", "-2attrs" if two_attrs else ""), tiers=tiers, timeout=timeout, kind="P", functions=F_R,
          bounds="colour system %s; styles with up to %d of the 13 attributes set on/off x fg and bg from %d representatives (unset, "
                 "default, standard, bright, 8-bit, truecolor, truecolor grey, windows) x link on/off; segments [styled 'a', unstyled "
                 "'b', styled 'c'] x no_color x is_terminal x legacy_windows (all solver-enumerated, native): decoded characters, "
                 "attributes, fg/bg after down-conversion, link; no leak onto the unstyled text; no escapes when colour is disabled; "
                 "no colour parameters with NO_COLOR" % (system, 2 if two_attrs else 1, len(COLORS)),
          outside="more than two attributes at once except the all-13 case (C03-all-attributes); one Style object shared by "
                  "consoles of different colour systems (the per-style _ansi memo is not keyed by system)",
          stubs=["segments are put in the console's buffer directly (Console._buffer) and flushed by leaving the console context"])
    def h(e):
        style = mk_style(e, two_attrs)
        no_color = e.mkbool("no_color")
        terminal = e.mkbool("terminal")
        legacy = e.mkbool("legacy_windows")
        segs = [Segment("a", style), Segment("b"), Segment("c", style)]
        return check_stream(segs, system, bool(no_color), bool(terminal), bool(legacy))
    return h


for _s in SYSTEMS:
    _mk(_s, ("quick", "thorough"), False)
for _s in SYSTEMS:
    _mk(_s, ("thorough",), True, timeout=3400)


@symx("C03-all-attributes", timeout=600, kind="P", functions=F_R,
      bounds="the style with all 13 attributes on, and each single attribute off with the other 12 on, on every colour system")
def c03_all(e):
    off = int(e.mk("off", 0, 13))
    kw = {a: (i != off) for i, a in enumerate(ATTRS)}
    system = SYSTEMS[int(e.mk("system", 0, len(SYSTEMS) - 1))]
    segs = [Segment("a", Style(**kw)), Segment("b")]
    return check_stream(segs, system, False, True, False)


@symx("C03-control-segments", timeout=600, kind="P", functions=F_R,
      bounds="segment lists with an unstyled control segment (bell, cursor-up, CR - what Control / Console.control produce) "
             "before, after or between styled and unstyled text x is_terminal x colour system x NO_COLOR: a non-terminal target receives no "
             "control codes; a terminal receives them and the visible text unchanged",
      outside="control segments that carry a style: LiveRender flags its (visible, styled) frame lines as control segments so "
              "that they are not recorded, and _render_buffer deliberately writes those to non-terminals too")
def c03_control(e):
    system = SYSTEMS[int(e.mk("system", 0, len(SYSTEMS) - 1))]
    terminal = bool(e.mkbool("terminal"))
    styled_ctl = False
    which = ["\x07", "\x1b[1A", "\r"][int(e.mk("which", 0, 2))]
    st = Style(bold=True)
    ctl = Segment(which, st if styled_ctl else None, True)
    order = int(e.mk("order", 0, 2))
    body = [Segment("a", st), Segment("b")]
    segs = [ctl] + body if order == 0 else (body + [ctl] if order == 1 else [body[0], ctl, body[1]])
    no_color = bool(e.mkbool("no_color"))
    c = mk_console(system, no_color, terminal, False)
    with c:
        c._buffer.extend(segs)
    out = c.file.getvalue()
    dec = termmodel.sgr_decode(out)
    if dec.text != "ab":
        return False
    if not terminal:
        return which not in out and not dec.controls
    return which in out


# --- all 2^13 attribute masks (S over the masks: symx BitVec; the emitted parameter list is concrete per path) ---------
from vf.symx import SymInt  # noqa: E402


@symx("C03-all-attribute-masks", timeout=2400, kind="S", opts={"bv": 16}, tiers=("thorough",), functions=["rich/style.py:Style._make_ansi_codes", "rich/style.py:Style.render"],
      bounds="EVERY combination of the 13 attributes: _attributes and _set_attributes are symbolic 13-bit masks (any attributes "
             "value, also bits that are not set); Style.render branches on them and on each of its 8192 x (set-mask classes) paths "
             "the emitted SGR parameter list is exactly the codes of the attributes that are set and on, in ascending bit order, "
             "and no others; a style with nothing on renders the text bare",
      stubs=["the Style is built with Style.__new__ and its slots set directly (any mask pair, not only those __init__ produces)"])
def c03_masks(e):
    attrs = e.mk("attributes", 0, 0x1FFF)
    sets = e.mk("set_attributes", 0, 0x1FFF)
    if isinstance(attrs, int) and isinstance(sets, int):
        # concrete replay: build the style through the public constructor (robust against changes of the representation)
        st = Style(**{ATTRS[i]: bool(attrs >> i & 1) for i in range(13) if sets >> i & 1})
    else:
        st = Style.__new__(Style)
        st._ansi = None
        st._style_definition = None
        st._color = None
        st._bgcolor = None
        st._attributes = attrs
        st._set_attributes = sets
        st._link = None
        st._link_id = ""
        st._hash = 0
        st._null = False
    out = st.render("x", color_system=ColorSystem.TRUECOLOR)
    codes = ["1", "2", "3", "4", "5", "6", "7", "8", "9", "21", "51", "52", "53"]
    # on this path every bit Style.render looked at is decided: read the effective mask back from the model
    eff = attrs & sets
    want = []
    ok = True
    for bit in range(13):
        on = (eff >> bit) & 1
        if isinstance(on, SymInt):
            on = 1 if (on == 1) else 0          # forks only if render did not already decide this bit
        if on:
            want.append(codes[bit])
    expect = ("\x1b[" + ";".join(want) + "mx\x1b[0m") if want else "x"
    return out == expect


@symx("C03-same-style-object-reused", timeout=900, kind="P", functions=F_R + ["rich/style.py:Style.without_color"],
      bounds="one Style object (<=1 attribute, fg/bg from the representatives, link) printed first on a colour console and then on a "
             "NO_COLOR console of the same colour system, and in the reverse order: the second stream is as specified whatever the "
             "object rendered before (cached SGR strings must not leak colour into a no-colour stream)",
      outside="the same Style object on consoles of DIFFERENT colour systems (the per-style _ansi memo is not keyed by the system; "
              "upstream behaviour)")
def c03_reuse(e):
    style = mk_style(e, False)
    system = ["standard", "256", "truecolor", "windows"][int(e.mk("system", 0, 3))]
    first_nocolor = bool(e.mkbool("no_color_first"))
    segs = [Segment("a", style), Segment("b")]
    for no_color in ((True, False) if first_nocolor else (False, True)):
        if not check_stream(segs, system, no_color, True, False):
            return False
    return True


# --- a style combined from styles that were rendered before (their SGR strings are cached on the objects) ------------------
_W_ATTR = [None, ("bold", True), ("bold", False), ("italic", True), ("dim", False)]
_W_COL = [None, Color.parse("red"), Color.from_rgb(64, 80, 96)]


def _w_style(e, p):
    kw = {}
    a = _W_ATTR[int(e.mk(p + "_attr", 0, len(_W_ATTR) - 1))]
    if a:
        kw[a[0]] = a[1]
    fg = _W_COL[int(e.mk(p + "_fg", 0, 2))]
    bg = _W_COL[int(e.mk(p + "_bg", 0, 2))]
    link = "http://x/" + p if e.mkbool(p + "_link") else None
    return Style(color=fg, bgcolor=bg, link=link, **kw)


@symx("C03-combined-after-render", timeout=1500, kind="P", functions=F_R + ["rich/style.py:Style.__add__", "rich/style.py:Style.combine",
                                                                           "rich/style.py:Style.chain"],
      bounds="styles a and b, each: one attribute from {none, bold on/off, italic on, dim off} x fg and bg from {unset, standard, "
             "truecolor} x link on/off; a (or a and b) is first written to a console so that its SGR string is cached on the object; "
             "then a+b, Style.combine([a,b]) and Style.chain(a,b) are written on a console of the same colour system (truecolor or "
             "standard): the decoded stream shows exactly the combined style's attributes, colours and link - nothing cached on an "
             "operand leaks into, or is missing from, the combination (all solver-enumerated, native)",
      outside="see C03-same-style-object-reused for consoles of different colour systems")
def c03_combined_warm(e):
    a, b = _w_style(e, "a"), _w_style(e, "b")
    system = ["truecolor", "standard"][int(e.mk("system", 0, 1))]
    both = bool(e.mkbool("render_b_too"))
    if not check_stream([Segment("w", a)] + ([Segment("v", b)] if both else []), system, False, True, False):
        return False
    for c in (a + b, Style.combine([a, b]), Style.chain(a, b)):
        if not check_stream([Segment("x", c), Segment("y")], system, False, True, False):
            return False
    # the operands still render as themselves afterwards
    return check_stream([Segment("w", a), Segment("v", b)], system, False, True, False)


# --- a console whose file is replaced: terminal-only codes follow the CURRENT file (P) ------------------------------------------
class _Tty(io.StringIO):
    def isatty(self):
        return True


@symx("C03-file-switch", timeout=600, kind="P", functions=F_R + ["rich/console.py:Console.is_terminal", "rich/console.py:Console.control",
                                                                "rich/console.py:Console.file"],
      bounds="a console (colour system fixed to truecolor, terminal detection left to the file) whose file is a terminal or not, used "
             "for two operations from {styled print, control(clear line), bell, show_cursor(False), is_terminal read}, then its "
             "file is replaced by one of the other kind and two more operations follow: after the switch the new file receives "
             "control codes exactly when IT is a terminal, and the visible text in both files is what was printed "
             "(solver-enumerated, native)")
def c03_file_switch(e):
    first_tty = bool(e.mkbool("first_is_terminal"))
    f1 = _Tty() if first_tty else io.StringIO()
    f2 = io.StringIO() if first_tty else _Tty()
    c = Console(file=f1, color_system="truecolor", width=40, legacy_windows=False, _environ={})
    from rich.control import Control

    def op(k):
        if k == 0:
            c.print("x", style="bold red")
            return "x\n"
        if k == 1:
            c.control("\x1b[2K")
        elif k == 2:
            c.bell()
        elif k == 3:
            c.show_cursor(False)
        else:
            c.is_terminal
        return ""
    text1 = op(int(e.mk("op0", 0, 4))) + op(int(e.mk("op1", 0, 4)))
    c.file = f2
    ks = [int(e.mk("op2", 0, 4)), int(e.mk("op3", 0, 4))]
    text2 = op(ks[0]) + op(ks[1])
    d1, d2 = termmodel.sgr_decode(f1.getvalue()), termmodel.sgr_decode(f2.getvalue())
    if d1.text != text1 or d2.text != text2:
        return False
    second_tty = not first_tty
    wants_control = any(k in (1, 2, 3) for k in ks)
    has_control = bool(d2.controls)
    return has_control == (second_tty and wants_control)
