"""C15 - recording, capture and export agree with what was written (DESIGN.md 5, C15)."""
import html
import io
import re

from rich.console import Console
from rich.segment import Segment
from rich.style import Style
from rich.text import Text

from vf.obl import symx
from vf import termmodel

F_X = ["rich/console.py:Console._render_buffer", "rich/console.py:Console.export_text", "rich/console.py:Console.export_html",
       "rich/console.py:Console.capture", "rich/console.py:Capture", "rich/segment.py:Segment.simplify",
       "rich/segment.py:Segment.filter_control"]
TEXTS = ["a", "<", ">&", "\n", "b\n", " ", "&lt;x", "&#38;&amp;"]
CTRL = ["\x07", "\x1b[1A", "\x1b[?25l"]
STYLES = [None, Style(bold=True), Style(color="red", link="http://x/?a=1&b=2"), Style(bold=True)]
SYSTEMS = [None, "truecolor", "standard"]
_TAG = re.compile(r"<[^>]+>")


def mk_console(system, terminal, record=True, no_color=False):
    return Console(file=io.StringIO(), color_system=system, force_terminal=terminal, width=20, legacy_windows=False,
                   record=record, log_time=False, log_path=False, no_color=no_color, _environ={})


def _style_key(cell):
    ch, attrs, fg, bg, link = cell
    return (ch, "bold" in attrs, fg, link)


def exports_agree(c, expected_cells=None, clear_with=0) -> bool:
    """All exports of console c agree with the visible text in its file."""
    visible = termmodel.strip_escapes(c.file.getvalue())
    plain = c.export_text(clear=False)
    if plain != visible:
        return False
    for inline in (False, True):
        code = c.export_html(clear=False, inline_styles=inline, code_format="{code}")
        if html.unescape(_TAG.sub("", code)) != visible:
            return False
        if any(ord(ch) < 32 and ch != "\n" for ch in code):
            return False
    styled = termmodel.sgr_decode(c.export_text(clear=False, styles=True))
    if styled.text != visible:
        return False
    if expected_cells is not None and [_style_key(x) for x in styled.cells] != expected_cells:
        return False
    # without clear the record is unchanged; with clear it is emptied
    if c.export_text(clear=False) != plain:
        return False
    # the clearing export: plain text, styled text or html - each must return the full record and then leave it empty
    if clear_with == 0:
        if c.export_text(clear=True) != plain:
            return False
    elif clear_with == 1:
        if termmodel.sgr_decode(c.export_text(clear=True, styles=True)).text != visible:
            return False
    else:
        if html.unescape(_TAG.sub("", c.export_html(clear=True, code_format="{code}"))) != visible:
            return False
    return c.export_text() == "" and _TAG.sub("", c.export_html(code_format="{code}")) == ""


def _mk_unit(nseg, tiers, timeout, first=None):
    @symx("C15-record-buffer-%dseg%s" % (nseg, "" if first is None else "-first%d" % first), tiers=tiers, timeout=timeout, kind="P", functions=F_X,
          bounds="recording console (colour system from %r, terminal or not, NO_COLOR on/off) whose buffer receives every list of %d segments, each a "
                 "text from %r with a style from {none, bold, red+link, bold again} or an unstyled control segment from %r "
                 "(solver-enumerated, native): export_text == visible text of the file; export_html (both modes) with tags removed "
                 "and entities decoded == same and free of control characters; export_text(styles=True) decodes to the same "
                 "characters with the same bold/colour/link; clear semantics for each of the three exports (solver-chosen)" % (SYSTEMS, nseg, TEXTS, CTRL),
          outside="longer segment lists; wide characters; styled control segments (LiveRender frames, see C03)")
    def h(e):
        system = SYSTEMS[int(e.mk("system", 0, len(SYSTEMS) - 1))]
        terminal = bool(e.mkbool("terminal"))
        no_color = bool(e.mkbool("no_color"))
        segs = []
        for i in range(nseg):
            k = first if (first is not None and i == 0) else int(e.mk("seg%d" % i, 0, len(TEXTS) + len(CTRL) - 1))
            if k < len(TEXTS):
                st = STYLES[int(e.mk("style%d" % i, 0, len(STYLES) - 1))]
                segs.append(Segment(TEXTS[k], st))
            else:
                segs.append(Segment.control(CTRL[k - len(TEXTS)]))
        c = mk_console(system, terminal, no_color=no_color)
        with c:
            c._buffer.extend(segs)
        cells = []
        for text, st, ctl in segs:
            if ctl:
                continue
            for ch in text:
                if st is None:
                    cells.append((ch, False, None, None))
                else:
                    col = ("std", 1) if st.color is not None else None
                    cells.append((ch, bool(st.bold), col, st.link))
        return exports_agree(c, cells, int(e.mk("clear_with", 0, 2)))
    return h


_mk_unit(2, ("quick", "thorough"), 900)
for _f in range(len(TEXTS) + len(CTRL)):      # one obligation per first segment (text or control code)
    _mk_unit(3, ("thorough",), 3400, first=_f)


# --- API level: histories of print / log / rule / line / control, with and without capture ---------------------------
def _apply(c, op, arg):
    if op == 0:
        c.print(["a<b &lt; &amp;", "[bold]x[/] & y", Text("wide 中", style="red"), "l1\nl2"][arg])
    elif op == 1:
        c.print("s&t", style=["bold", "red on blue", "link http://l", "none"][arg])
    elif op == 2:
        c.log(["x <y>", "z"][arg % 2])
    elif op == 3:
        c.rule(["", "T", "<&>", "title longer than line"][arg])
    elif op == 4:
        c.line(arg % 3)
    elif op == 5:
        c.control(["\x07", "\x1b[2K", "\r", "\x07\x07"][arg])
    elif op == 6:
        c.show_cursor(arg % 2 == 0)
    else:
        c.bell()


def _mk_api(nops, tiers, timeout, first=None):
    @symx("C15-api-%dops%s" % (nops, "" if first is None else "-first%d" % first), tiers=tiers, timeout=timeout, kind="P",
          functions=F_X + ["rich/console.py:Console.print", "rich/console.py:Console.log", "rich/console.py:Console.rule",
                           "rich/console.py:Console.line", "rich/console.py:Console.control", "rich/console.py:Console.show_cursor"],
          bounds="every history of %d operations from {print(4 renderables), print(style=4), log(2), rule(4 titles), line(0..2), "
                 "control(4 codes), show_cursor, bell} on a recording console (colour system None/truecolor, terminal or not), one "
                 "solver-chosen operation executed inside capture(): exports agree with the file's visible text; the captured "
                 "string equals what a twin console writes for the same operation; nothing reaches the file during capture" % nops)
    def h(e):
        system = [None, "truecolor"][int(e.mk("system", 0, 1))]
        terminal = bool(e.mkbool("terminal"))
        no_color = bool(e.mkbool("no_color"))
        ops = [((first if (first is not None and i == 0) else int(e.mk("op%d" % i, 0, 7))), int(e.mk("arg%d" % i, 0, 3)))
               for i in range(nops)]
        cap_at = int(e.mk("capture_at", 0, nops))      # nops = no capture
        c = mk_console(system, terminal, no_color=no_color)
        for i, (op, arg) in enumerate(ops):
            if i == cap_at:
                before = c.file.getvalue()
                with c.capture() as cap:
                    _apply(c, op, arg)
                    if c.file.getvalue() != before:
                        return False
                if c.file.getvalue() != before:
                    return False
                twin = mk_console(system, terminal, record=False, no_color=no_color)
                _apply(twin, op, arg)
                # hyperlink ids are random per Style object: normalise them before comparing
                norm = lambda t: re.sub(r"\x1b\]8;id=[^;]*;", "\x1b]8;id=N;", t)  # noqa: E731
                if norm(cap.get()) != norm(twin.file.getvalue()):
                    return False
                # captured output is not part of what was written to the file: drop it from the record for the comparison
                c2 = mk_console(system, terminal, no_color=no_color)
                for (op2, arg2) in ops[:i]:
                    _apply(c2, op2, arg2)
                if norm(c2.file.getvalue()) != norm(before):
                    return False
            else:
                _apply(c, op, arg)
        # with or without a capture block in the history: what was captured never reached the file, so it is not in the exports
        return exports_agree(c)
    return h


_mk_api(2, ("quick", "thorough"), 900)
for _f in range(8):
    _mk_api(3, ("thorough",), 3400, first=_f)


# --- a capture block that is left by an exception, followed by ordinary output and another capture ---------------------------
class _Boom(Exception):
    pass


class _Exploding:
    def __rich_console__(self, console, options):
        yield Text("half")
        raise _Boom()


@symx("C15-capture-exception-then-continue", timeout=1500, kind="P",
      functions=F_X + ["rich/console.py:Capture.__enter__", "rich/console.py:Capture.__exit__", "rich/console.py:Console.begin_capture",
                       "rich/console.py:Console.end_capture", "rich/console.py:Console._exit_buffer"],
      bounds="history [op A; capture block running op B that completes / whose body raises after B / whose renderable raises while "
             "printing; op C; capture block running op D] with A, C from 6 and D from 3 print/rule operations, B from 16 operations, on "
             "a recording terminal console (colour system None / truecolor): nothing reaches the file during either block, the "
             "exception propagates, afterwards the file holds exactly what a twin console writes for [A, C], a completed first "
             "capture returns the twin's output for B and the second capture returns the twin's output for D - nothing left over "
             "from the block that failed (solver-enumerated, native)")
def c15_capture_exc(e):
    system = [None, "truecolor"][int(e.mk("system", 0, 1))]
    small = [(0, 0), (0, 1), (1, 0), (1, 1), (3, 0), (3, 1)]
    a = small[int(e.mk("opA", 0, 5))]
    b = (int(e.mk("opB", 0, 7)), int(e.mk("argB", 0, 1)))
    cc = small[int(e.mk("opC", 0, 5))]
    d = small[int(e.mk("opD", 0, 2)) * 2]
    mode = int(e.mk("first_block", 0, 2))      # 0 completes, 1 body raises, 2 renderable raises
    norm = lambda t: re.sub(r"\x1b\]8;id=[^;]*;", "\x1b]8;id=N;", t)  # noqa: E731
    c = mk_console(system, True)
    _apply(c, *a)
    before = c.file.getvalue()
    raised = False
    try:
        with c.capture() as cap1:
            _apply(c, *b)
            if mode == 1:
                raise _Boom()
            if mode == 2:
                c.print(_Exploding())
            if c.file.getvalue() != before:
                return False
    except _Boom:
        raised = True
    if raised != (mode != 0) or c.file.getvalue() != before:
        return False
    _apply(c, *cc)
    mid = c.file.getvalue()
    with c.capture() as cap2:
        _apply(c, *d)
    if c.file.getvalue() != mid:
        return False

    def twin(*ops):
        t = mk_console(system, True, record=False)
        for op in ops:
            _apply(t, *op)
        return norm(t.file.getvalue())
    if norm(mid) != twin(a, cc):
        return False
    if mode == 0 and norm(cap1.get()) != twin(b):
        return False
    return norm(cap2.get()) == twin(d)


# --- the same styled text recorded repeatedly: the styled export must follow the record, not strings cached on Style objects ---
from rich.color import Color  # noqa: E402
from rich.style import Style  # noqa: E402

_R_ATTR = [None, ("bold", True), ("bold", False), ("italic", True), ("dim", False)]
_R_COL = [None, Color.parse("red"), Color.from_rgb(64, 80, 96)]


def _r_style(e, p):
    kw = {}
    a = _R_ATTR[int(e.mk(p + "_attr", 0, len(_R_ATTR) - 1))]
    if a:
        kw[a[0]] = a[1]
    link = "http://x/" + p if e.mkbool(p + "_link") else None
    return Style(color=_R_COL[int(e.mk(p + "_fg", 0, 2))], bgcolor=_R_COL[int(e.mk(p + "_bg", 0, 2))], link=link, **kw)


def _cell_key(style, ch, no_color=False):
    def col(c):
        if c is None or no_color:
            return None
        return ("std", c.number) if c.triplet is None else ("rgb",) + tuple(c.triplet)
    return (ch, bool(style.bold), col(style.color), style.link)


@symx("C15-styled-export-repeated", timeout=1500, kind="P", functions=F_X + ["rich/style.py:Style.__add__", "rich/style.py:Style.render"],
      bounds="Text 'abcd' with style a on [0,4) and b on [1,3) (each: attribute from {none, bold on/off, italic on, dim off} x fg, bg "
             "from {unset, standard, truecolor} x link) printed three times on a recording truecolor terminal console (NO_COLOR on or "
             "off) with the same Style objects: after every print the file, the plain, HTML and styled exports agree and the styled "
             "export decodes to the combined style per character (solver-enumerated, native)")
def c15_styled_repeated(e):
    a, b = _r_style(e, "a"), _r_style(e, "b")
    no_color = bool(e.mkbool("no_color"))
    text = Text("abcd")
    text.stylize(a, 0, 4)
    text.stylize(b, 1, 3)
    ab = a + b
    line = [_cell_key(a, "a"), _cell_key(ab, "b"), _cell_key(ab, "c"), _cell_key(a, "d")]
    nl = ("\n", False, None, None)
    c = mk_console("truecolor", True, no_color=no_color)
    for rnd in range(3):
        c.print(text)
        want = (line + [nl]) * (rnd + 1)
        styled = termmodel.sgr_decode(c.export_text(clear=False, styles=True))
        got = [(ch, "bold" in at, fg, link) for ch, at, fg, bg, link in styled.cells]
        if [g[:2] + g[3:] for g in got] != [w[:2] + w[3:] for w in want]:
            return False
        # the record keeps colours even under NO_COLOR (only the file drops them): compare colours when colour is on
        if not no_color and got != want:
            return False
        filed = termmodel.sgr_decode(c.file.getvalue())
        fgot = [(ch, "bold" in at, fg, link) for ch, at, fg, bg, link in filed.cells]
        fwant = [(w[0], w[1], None if no_color else w[2], w[3]) for w in want]
        if fgot != fwant:
            return False
    return exports_agree(c)
