"""C18 - colour down-conversion (DESIGN.md 5, C18)."""
import z3

import rich.palette as palette_mod
from rich._palettes import EIGHT_BIT_PALETTE, STANDARD_PALETTE, WINDOWS_PALETTE
from rich.color import Color, ColorSystem, ColorType
from rich.color_triplet import ColorTriplet

from vf.obl import symx, xh
from vf.symx import SymInt, sym_and, sym_or, sym_implies, sym_not

F_DG = ["rich/color.py:Color.downgrade", "rich/color_triplet.py:ColorTriplet.normalized", "colorsys.rgb_to_hls (stdlib, executed)"]
F_MATCH = ["rich/color.py:Color.downgrade", "rich/palette.py:Palette.match", "rich/_palettes.py"]
_downgrade = getattr(Color.downgrade, '__wrapped__', Color.downgrade)
_match = getattr(palette_mod.Palette.match, '__wrapped__', palette_mod.Palette.match)


class _sqrt_stub:
    """L2: sqrt is strictly increasing on 0..2^21, so argmin over sqrt(x) == argmin over x."""

    def __enter__(self):
        self.saved = getattr(palette_mod, "sqrt", None)     # a refactoring may not use sqrt at all
        palette_mod.sqrt = lambda x: x
        if hasattr(Color.downgrade, 'cache_clear'):
            Color.downgrade.cache_clear()

    def __exit__(self, *a):
        if self.saved is None:
            del palette_mod.sqrt
        else:
            palette_mod.sqrt = self.saved


def _truecolor(e):
    r, g, b = e.mk("r", 0, 255), e.mk("g", 0, 255), e.mk("b", 0, 255)
    return r, g, b, Color("c", ColorType.TRUECOLOR, None, ColorTriplet(r, g, b))


# --- a. truecolor -> 256, exact IEEE-754 double semantics -------------------------------------
def _a_body(e, r, g, b, c):
    out = _downgrade(c, ColorSystem.EIGHT_BIT)
    n = out.number
    ok = sym_and(out.type == ColorType.EIGHT_BIT, out.triplet is None, n >= 16, n <= 255)
    grey = sym_and(r == g, g == b)
    on_ramp = sym_or(n == 16, n == 231, sym_and(n >= 232, n <= 255))
    ok = sym_and(ok, sym_implies(grey, on_ramp))
    # idempotent: converting the result again changes nothing
    again = _downgrade(out, ColorSystem.EIGHT_BIT)
    return sym_and(ok, again is out)


_A_STUBS = ["S2: lru_cache on downgrade bypassed via __wrapped__", "S3: max/min in colorsys merged into If-terms",
            "engine rewrites (exact): int/255.0 for an 8-bit variable becomes a 256-entry table of CPython's own quotients; "
            "x/2.0 becomes x*0.5"]
_NSHARD = 9
for _i in range(_NSHARD):
    @symx("C18-a-truecolor-to-256-shard%d" % _i, tiers=("thorough",), timeout=2400, kind="S", functions=F_DG,
          opts={"bv": 32, "fp": True, "query_timeout_ms": 1200000, "lazy": True, "shard": (_i, _NSHARD)},
          bounds="all 2^24 (r,g,b); floats are z3 Float64 with round-to-nearest-even (exact Python semantics); the 27 "
                 "syntactic paths of downgrade+colorsys.rgb_to_hls are split over %d obligations (this one: ordinal %% %d == %d), "
                 "one solver query per path" % (_NSHARD, _NSHARD, _i),
          outside="nothing inside the 24-bit colour space", stubs=_A_STUBS)
    def c18_a(e):
        r, g, b, c = _truecolor(e)
        return _a_body(e, r, g, b, c)


@symx("C18-a-greys-to-256", timeout=600, kind="S", functions=F_DG, opts={"bv": 32, "fp": True, "query_timeout_ms": 300000},
      bounds="all 256 greys r=g=b (exact Float64): in gamut, on the grey ramp or black/white, idempotent",
      outside="non-grey colours are covered by the thorough tier (C18-a-truecolor-to-256-shard*)", stubs=_A_STUBS)
def c18_a_grey(e):
    r, g, b, c = _truecolor(e)
    e.assume(sym_and(r == g, g == b))
    return _a_body(e, r, g, b, c)


# --- b. -> 16 colours: in gamut and nearest under the weighted metric -----------------------------
def _dist(r1, g1, b1, c2):
    """Rich's documented metric, restated (without the monotone sqrt)."""
    r2, g2, b2 = c2
    red_mean = (r1 + r2) // 2
    dr, dg, db = r1 - r2, g1 - g2, b1 - b2
    return (((512 + red_mean) * dr * dr) >> 8) + 4 * dg * dg + (((767 - red_mean) * db * db) >> 8)


class _sqrt_keys:
    """Environment stub: sqrt returns the next of the given opaque keys (and records its argument)."""

    def __init__(self, keys=None):
        self.keys, self.args = keys, []

    def __enter__(self):
        self.saved = getattr(palette_mod, "sqrt", None)     # a refactoring may not use sqrt at all

        def stub(x):
            self.args.append(x)
            return x if self.keys is None else self.keys[len(self.args) - 1]
        palette_mod.sqrt = stub
        return self

    def __exit__(self, *a):
        if self.saved is None:
            del palette_mod.sqrt
        else:
            palette_mod.sqrt = self.saved


def _select(e, n, items):
    if isinstance(n, int):
        return items[n]
    cur = items[0]
    for j in range(1, len(items)):
        cur = SymInt(e, z3.If(n.z == j, items[j].z, cur.z))
    return cur


def _mk_b(name, system, ctype, pal, opts, tiers, timeout):
    @symx("C18-b-truecolor-to-%s" % name, tiers=tiers, timeout=timeout, kind="S", functions=F_MATCH, opts=opts,
          bounds="all 2^24 (r,g,b) against all 16 palette entries; decomposed: (1) the key the code computes for entry j "
                 "equals the documented weighted metric for the palette's j-th colour, for every j and every colour; "
                 "(2) with 16 opaque keys (any values < 2^27) the code returns an index of minimal key",
          stubs=["L2: rich.palette.sqrt replaced by identity / by opaque keys (sqrt is order-isomorphic on 0..2^21)", "S2",
                 "S3: min(range(16), key=) merged into an If-chain"])
    def h(e):
        r, g, b, c = _truecolor(e)
        colors = pal._colors
        with _sqrt_keys() as rec:
            out = _downgrade(c, system)
        n = out.number
        ok = sym_and(out.type == ctype, out.triplet is None, n >= 0, n < 16)
        # (1) the code's 16 keys are exactly the documented metric (when the code takes 16 square roots at all) ...
        same = len(rec.args) == 16
        for j in range(16 if same else 0):
            same = sym_and(same, rec.args[j] == _dist(r, g, b, colors[j]))
        # ... or, failing that (a refactoring may use any order-equivalent key), the chosen entry is minimal directly.
        # On the unchanged tree (1) simplifies to True; a counterexample must violate the property itself.
        mine = [_dist(r, g, b, colors[j]) for j in range(16)]
        dn = _select(e, n, mine)
        direct = True
        for j in range(16):
            direct = sym_and(direct, dn <= mine[j])
        ok = sym_and(ok, sym_or(same, direct))
        with _sqrt_keys():
            again = _downgrade(out, system)
        return sym_and(ok, again is out)
    return h


def _mk_b2(name, pal, tiers, timeout):
    @symx("C18-b-argmin-%s" % name, tiers=tiers, timeout=timeout, kind="S", functions=["rich/palette.py:Palette.match"],
          bounds="part (2) of the decomposition: all (r,g,b) and 16 opaque keys (any integers 0..2^27): the index returned by "
                 "Palette.match has a key <= every other key (z3 Int)",
          stubs=["rich.palette.sqrt returns solver-chosen opaque keys in call order", "S2", "S3"])
    def h(e):
        r, g, b = e.mk("r", 0, 255), e.mk("g", 0, 255), e.mk("b", 0, 255)
        keys = [e.mk("k%d" % j, 0, (1 << 27) - 1) for j in range(16)]
        with _sqrt_keys(keys) as rec:
            n2 = _match(pal, (r, g, b))
        if len(rec.args) != 16:
            return True     # the code does not go through sqrt keys: this decomposition step does not apply (see C18-b-truecolor-*)
        kn = _select(e, n2, keys)
        ok = sym_and(n2 >= 0, n2 < 16)
        for j in range(16):
            ok = sym_and(ok, kn <= keys[j])
        return ok
    return h


_mk_b2("standard", STANDARD_PALETTE, ("quick", "thorough"), 300)
_mk_b2("windows", WINDOWS_PALETTE, ("quick", "thorough"), 300)
_mk_b("standard", ColorSystem.STANDARD, ColorType.STANDARD, STANDARD_PALETTE, {"bv": 64, "query_timeout_ms": 600000},
      ("quick", "thorough"), 600)
_mk_b("windows", ColorSystem.WINDOWS, ColorType.WINDOWS, WINDOWS_PALETTE, {"bv": 64, "query_timeout_ms": 600000},
      ("quick", "thorough"), 600)


def _mk_b8(name, system, ctype, pal, tiers, timeout):
    @symx("C18-b-8bit-to-%s" % name, tiers=tiers, timeout=timeout, kind="P", functions=F_MATCH,
          bounds="all 256 indexed colours (index concretised by EIGHT_BIT_PALETTE[n]: 256 solver-enumerated values)",
          stubs=["L2 sqrt stub", "S2"])
    def h(e):
        nn = e.mk("n", 0, 255)
        c = Color("c", ColorType.EIGHT_BIT, nn, None)
        with _sqrt_stub():
            out = _downgrade(c, system)
        n = out.number
        r, g, b = EIGHT_BIT_PALETTE._colors[int(nn)]
        ok = sym_and(out.type == ctype, n >= 0, n < 16)
        k = int(n)
        if system == ColorSystem.WINDOWS and int(nn) < 16:
            # indices below 16 are already representable on a 16-colour console: unchanged
            return sym_and(ok, n == nn)
        for j in range(16):
            ok = sym_and(ok, _dist(r, g, b, pal._colors[k]) <= _dist(r, g, b, pal._colors[j]))
        return ok
    return h


_mk_b8("standard", ColorSystem.STANDARD, ColorType.STANDARD, STANDARD_PALETTE, ("quick", "thorough"), 600)
_mk_b8("windows", ColorSystem.WINDOWS, ColorType.WINDOWS, WINDOWS_PALETTE, ("quick", "thorough"), 600)


# --- c. representable colours unchanged, default stays default, idempotence ---------------------
_SYSTEMS = [ColorSystem.STANDARD, ColorSystem.EIGHT_BIT, ColorSystem.TRUECOLOR, ColorSystem.WINDOWS]


@symx("C18-c-representable-unchanged", timeout=600, kind="S", functions=F_MATCH + F_DG, opts={},
      bounds="default x 4 systems; standard n in 0..15 -> {standard, 256, truecolor}; 8-bit n in 0..255 -> {256, truecolor}; "
             "truecolor (r,g,b) -> truecolor; windows n in 0..15 -> windows",
      stubs=["S2"])
def c18_c(e):
    n16 = e.mk("n16", 0, 15)
    n256 = e.mk("n256", 0, 255)
    r, g, b = e.mk("r", 0, 255), e.mk("g", 0, 255), e.mk("b", 0, 255)
    ok = True
    d = Color("default", ColorType.DEFAULT)
    for s in _SYSTEMS:
        ok = ok and (_downgrade(d, s) is d)
    std = Color("s", ColorType.STANDARD, n16, None)
    for s in (ColorSystem.STANDARD, ColorSystem.EIGHT_BIT, ColorSystem.TRUECOLOR):
        ok = ok and (_downgrade(std, s) is std)
    eb = Color("e", ColorType.EIGHT_BIT, n256, None)
    for s in (ColorSystem.EIGHT_BIT, ColorSystem.TRUECOLOR):
        ok = ok and (_downgrade(eb, s) is eb)
    tc = Color("t", ColorType.TRUECOLOR, None, ColorTriplet(r, g, b))
    ok = ok and (_downgrade(tc, ColorSystem.TRUECOLOR) is tc)
    w = Color("w", ColorType.WINDOWS, n16, None)
    ok = ok and (_downgrade(w, ColorSystem.WINDOWS) is w)
    # a standard colour shown on a legacy Windows console keeps its index
    sw = _downgrade(std, ColorSystem.WINDOWS)
    return sym_and(ok, sw.type == ColorType.WINDOWS, sw.number == n16)


# --- f. SGR parameters (S, xh) ----------------------------------------------------------------------
F_CODES = ["rich/color.py:Color.get_ansi_codes"]
def _codes(c, fg):
    return getattr(Color.get_ansi_codes, '__wrapped__', Color.get_ansi_codes)(c, fg)


def _pre_rgb(r: int, g: int, b: int, fg: bool) -> bool:
    return 0 <= r <= 255 and 0 <= g <= 255 and 0 <= b <= 255


@xh("C18-f-codes-truecolor", pre=_pre_rgb, timeout=120, kind="S", functions=F_CODES,
    bounds="all 2^24 triplets x fg/bg (decimal rendering str(int) symbolic in CrossHair)")
def c18_f_true(r: int, g: int, b: int, fg: bool) -> bool:
    c = Color("x", ColorType.TRUECOLOR, None, ColorTriplet(r, g, b))
    return _codes(c, fg) == (("38" if fg else "48"), "2", str(r), str(g), str(b))


def _pre_n16(n: int, fg: bool, win: bool) -> bool:
    return 0 <= n <= 15


@xh("C18-f-codes-16", pre=_pre_n16, timeout=120, kind="S", functions=F_CODES,
    bounds="all 16 indices x fg/bg x {standard, windows}")
def c18_f_16(n: int, fg: bool, win: bool) -> bool:
    c = Color("x", ColorType.WINDOWS if win else ColorType.STANDARD, n, None)
    if n < 8:
        want = (30 if fg else 40) + n
    else:
        want = (90 if fg else 100) + n - 8
    return _codes(c, fg) == (str(want),)


def _pre_n256(n: int, fg: bool) -> bool:
    return 0 <= n <= 255


@xh("C18-f-codes-256", pre=_pre_n256, timeout=120, kind="S", functions=F_CODES, bounds="all 256 indices x fg/bg")
def c18_f_256(n: int, fg: bool) -> bool:
    c = Color("x", ColorType.EIGHT_BIT, n, None)
    d = Color("d", ColorType.DEFAULT)
    return (_codes(c, fg) == (("38" if fg else "48"), "5", str(n))
            and _codes(d, fg) == (("39" if fg else "49"),))


# --- history independence: converting one colour to several systems in either order (S) ---------------------------------
@symx("C18-b-cross-system-order", timeout=900, kind="S", functions=F_MATCH, opts={"bv": 64, "query_timeout_ms": 600000},
      bounds="all 2^24 (r,g,b): the same colour converted to standard then windows, and (on fresh objects with the same "
             "components) to windows then standard, within one execution: each result is minimal for ITS palette whatever was "
             "converted before (caches must not leak between palettes or calls)",
      stubs=["L2 sqrt stub", "S3", "downgrade is called through the real (possibly caching) attribute, not __wrapped__"])
def c18_cross(e):
    from vf.symx import smin
    r, g, b = e.mk("r", 0, 255), e.mk("g", 0, 255), e.mk("b", 0, 255)
    ok = True
    with _sqrt_keys():
        for order in ((ColorSystem.STANDARD, ColorSystem.WINDOWS), (ColorSystem.WINDOWS, ColorSystem.STANDARD)):
            c = Color("c", ColorType.TRUECOLOR, None, ColorTriplet(r, g, b))
            for system in order:
                out = Color.downgrade(c, system)
                pal = STANDARD_PALETTE if system == ColorSystem.STANDARD else WINDOWS_PALETTE
                mine = [_dist(r, g, b, pal._colors[j]) for j in range(16)]
                # first-minimal index of the documented metric, built the same way the code builds it (equal terms on the
                # unchanged tree); if the code picks another index it must still be a minimal one (property level)
                ref = smin(range(16), key=lambda j: mine[j])
                dn = _select(e, out.number, mine)
                direct = True
                for j in range(16):
                    direct = sym_and(direct, dn <= mine[j])
                ok = sym_and(ok, sym_or(out.number == ref, direct), out.number >= 0, out.number < 16)
    return ok


# --- exact violation condition split by the entry the code prefers (S) ------------------------------------------------------
def _mk_pref(name, system, pal, tiers, timeout):
    @symx("C18-b-preferred-entry-%s" % name, tiers=tiers, timeout=timeout, kind="S", functions=F_MATCH,
          opts={"bv": 64, "query_timeout_ms": 1200000},
          bounds="all 2^24 (r,g,b): there is no palette entry i whose key (as the code computes it) is <= every other key while some "
                 "entry j is strictly nearer under the documented metric - the exact condition for a wrong answer, stated entry by "
                 "entry so that the solver can split on i instead of reasoning through the nested argmin; in concrete replay the "
                 "property itself (the returned entry is minimal) is evaluated",
          stubs=["L2 sqrt recorder", "S3"])
    def h(e):
        r, g, b, c = _truecolor(e)
        colors = pal._colors
        with _sqrt_keys() as rec:
            out = _downgrade(c, system)
        mine = [_dist(r, g, b, colors[j]) for j in range(16)]
        if isinstance(r, int):
            # concrete replay: property level
            n = out.number
            return all(mine[n] <= mine[j] for j in range(16))
        if len(rec.args) != 16:
            # the code no longer computes one square root per entry: fall back to the property itself
            n = out.number
            dn = _select(e, n, mine)
            ok = sym_and(n >= 0, n < 16)
            for j in range(16):
                ok = sym_and(ok, dn <= mine[j])
            return ok
        keys = rec.args
        ok = True
        for i in range(16):
            prefers_i = True
            for k in range(16):
                if k != i:
                    prefers_i = sym_and(prefers_i, keys[i] <= keys[k])
            nearer = False
            for j in range(16):
                if j != i:
                    nearer = sym_or(nearer, mine[j] < mine[i])
            ok = sym_and(ok, sym_not(sym_and(prefers_i, nearer)))
        return ok
    return h


_mk_pref("standard", ColorSystem.STANDARD, STANDARD_PALETTE, ("quick", "thorough"), 1500)
_mk_pref("windows", ColorSystem.WINDOWS, WINDOWS_PALETTE, ("quick", "thorough"), 1500)


# --- the property itself, red component concretised (P over r, S over g and b) ---------------------------------------------
# With r concrete every key is a quadratic in g and b with constant coefficients, which z3 decides in seconds where the query over
# all three components returns `unknown` (0.6, seed C18-3).  No decomposition: the assertion is "the returned entry is minimal".
def _mk_direct(name, system, ctype, pal, lo, hi, tiers, timeout):
    @symx("C18-b-direct-%s-r%03d-%03d" % (name, lo, hi), tiers=tiers, timeout=timeout, kind="P", functions=F_MATCH,
          opts=dict({"query_timeout_ms": 60000}, **({"bv": 64} if __import__("os").environ.get("VF_C18_DIRECT_BV") else {})),
          bounds="red in %d..%d enumerated by the solver (one execution per value), green and blue symbolic over 0..255: the entry "
                 "returned by Color.downgrade for truecolor (r,g,b) is in 0..15, of the target type, and no other of the 16 palette "
                 "entries is strictly nearer under the documented weighted metric (asserted directly, exact integers / rationals)"
                 % (lo, hi),
          outside="nothing for these red values; the other red values are the sibling obligations",
          stubs=["L2: rich.palette.sqrt replaced by identity", "S2", "S3"])
    def h(e):
        r = int(e.mk("r", lo, hi))
        g, b = e.mk("g", 0, 255), e.mk("b", 0, 255)
        c = Color("c", ColorType.TRUECOLOR, None, ColorTriplet(r, g, b))
        with _sqrt_stub():
            out = _downgrade(c, system)
        n = out.number
        mine = [_dist(r, g, b, pal._colors[j]) for j in range(16)]
        dn = _select(e, n, mine)
        ok = sym_and(out.type == ctype, out.triplet is None, n >= 0, n < 16)
        for j in range(16):
            ok = sym_and(ok, dn <= mine[j])
        return ok
    return h


for _nm, _sys, _ct, _pal in (("standard", ColorSystem.STANDARD, ColorType.STANDARD, STANDARD_PALETTE),
                             ("windows", ColorSystem.WINDOWS, ColorType.WINDOWS, WINDOWS_PALETTE)):
    for _lo in range(0, 256, 16):
        _mk_direct(_nm, _sys, _ct, _pal, _lo, _lo + 15, ("quick", "thorough"), 1800)


# --- conversion histories with the real caches (P, native): converted colours converted again; neighbouring colours ---------
def _is_min(pal, rgb, number) -> bool:
    ds = [_dist(rgb[0], rgb[1], rgb[2], tuple(pal._colors[j])) for j in range(len(pal._colors))]
    return 0 <= number < len(ds) and ds[number] == min(ds)


_GRID = [0, 32, 64, 96, 128, 160, 192, 224, 255]


@symx("C18-conversion-history", timeout=900, kind="P", functions=F_MATCH,
      bounds="colours #rrggbb with every component from %r (729 colours, parsed by name so that converted colours share the name): "
             "converted to 8-bit, standard and windows, then each CONVERTED colour is converted again to each system, and the "
             "original once more (real caches, real sqrt): a colour already representable comes back unchanged, an 8-bit colour "
             "goes to an entry of minimum distance from ITS palette colour, repeated conversions agree, and a differently named "
             "colour of the same value agrees" % (_GRID,),
      outside="colours off the grid for this history (single conversions of all 2^24 colours: C18-a / C18-b)")
def c18_history(e):
    r, g, b = (_GRID[int(e.mk(k, 0, 8))] for k in "rgb")
    c = Color.parse("#%02x%02x%02x" % (r, g, b))
    key = lambda x: (x.type, x.number, tuple(x.triplet) if x.triplet else None)  # noqa: E731
    c256, c16, cw = c.downgrade(ColorSystem.EIGHT_BIT), c.downgrade(ColorSystem.STANDARD), c.downgrade(ColorSystem.WINDOWS)
    if c256.type != ColorType.EIGHT_BIT or c16.type != ColorType.STANDARD or cw.type != ColorType.WINDOWS:
        return False
    if not (_is_min(STANDARD_PALETTE, (r, g, b), c16.number) and _is_min(WINDOWS_PALETTE, (r, g, b), cw.number)):
        return False
    # representable colours are unchanged
    if key(c16.downgrade(ColorSystem.EIGHT_BIT)) != key(c16) or key(c16.downgrade(ColorSystem.STANDARD)) != key(c16):
        return False
    if key(c256.downgrade(ColorSystem.EIGHT_BIT)) != key(c256) or key(c.downgrade(ColorSystem.TRUECOLOR)) != key(c):
        return False
    # an 8-bit colour is converted from its own palette colour, not from the colour it once came from
    own = tuple(EIGHT_BIT_PALETTE._colors[c256.number])
    d16, dw = c256.downgrade(ColorSystem.STANDARD), c256.downgrade(ColorSystem.WINDOWS)
    if c256.number >= 16 and not (_is_min(STANDARD_PALETTE, own, d16.number) and _is_min(WINDOWS_PALETTE, own, dw.number)):
        return False
    # repeated and differently named conversions agree
    other = Color("other", ColorType.TRUECOLOR, None, ColorTriplet(r, g, b))
    for system, first in ((ColorSystem.EIGHT_BIT, c256), (ColorSystem.STANDARD, c16), (ColorSystem.WINDOWS, cw)):
        if key(c.downgrade(system)) != key(first) or key(other.downgrade(system)) != key(first):
            return False
    return True


@symx("C18-match-history-neighbours", timeout=900, kind="P", functions=["rich/palette.py:Palette.match"],
      bounds="pairs of colours that are neighbours when (r,g,b) is read as one number - (r,g,255)/(r,g+1,0) and (r,255,b)/(r+1,0,b) "
             "for every g resp. r in 0..254 and the third component in {0,100,255} - matched one after the other, in both orders, "
             "on the standard, windows and 8-bit palettes (real caches): each result is an entry of minimum distance for ITS colour",
      outside="other pairs (2^48); the single-conversion obligations cover every colour on a fresh cache")
def c18_neighbours(e):
    v = int(e.mk("v", 0, 254))
    third = [0, 100, 255][int(e.mk("third", 0, 2))]
    family = int(e.mk("family", 0, 1))
    pair = [(third, v, 255), (third, v + 1, 0)] if family == 0 else [(v, 255, third), (v + 1, 0, third)]
    if e.mkbool("reverse"):
        pair.reverse()
    for pal in (STANDARD_PALETTE, WINDOWS_PALETTE, EIGHT_BIT_PALETTE):
        for rgb in pair:
            if not _is_min(pal, rgb, pal.match(ColorTriplet(*rgb))):
                return False
    return True
