"""C10 - live displays leave a correct screen after any (short, single-threaded) history (DESIGN.md 5, C10)."""
import io
import sys

from rich.console import Console
from rich.console import RenderGroup
from rich.live import Live
from rich.progress import Progress
from rich.status import Status
from rich.text import Text

from vf.obl import symx
from vf.termmodel import Screen

F_L = ["rich/live.py:Live.start", "rich/live.py:Live.stop", "rich/live.py:Live.refresh", "rich/live.py:Live.update",
       "rich/live.py:Live.process_renderables", "rich/live_render.py:LiveRender.position_cursor",
       "rich/live_render.py:LiveRender.restore_cursor", "rich/live_render.py:LiveRender.__rich_console__",
       "rich/console.py:Console.print", "rich/console.py:Console._render_buffer"]
H = 6  # terminal height


def mk_console():
    return Console(file=io.StringIO(), force_terminal=True, width=20, height=H, color_system=None, legacy_windows=False,
                   _environ={})


def frame(tag, h):
    return Text("\n".join("%s%d" % (tag, i) for i in range(h)))


class _Nothing(RenderGroup):
    """A renderable that produces no lines at all (unlike Text(''), which is one empty line)."""
    plain = ""


def _mk_live(nops, tiers, timeout, first=None):
    @symx("C10-live-history-%dops" % nops + ("" if first is None else "-first%d" % first), tiers=tiers, timeout=timeout, kind="P", functions=F_L,
          bounds="Live on a terminal console (20x%d, no auto-refresh thread) x transient x vertical_overflow in {crop, ellipsis, "
                 "visible} x initial frame height 0..3 x every history of %d operations from {print, log-like second print, "
                 "update(frame of height 0..4 or 8 > screen or a renderable producing no lines at all, refresh=True), update without refresh, refresh, "
                 "a blank line through print() / line(), stop + start again with or without a line printed in between} then stop (once or twice) "
                 "(solver-enumerated, native, output replayed on a screen model): the screen shows exactly the printed lines in "
                 "order followed by the current frame (nothing if transient); no cursor-up ever leaves the visible screen; the "
                 "cursor is visible again; hooks and redirection restored" % (H, nops),
          outside="auto-refresh threads (C11); histories longer than %d; frames taller than the screen combined with "
                  "vertical_overflow='visible' (documented to scroll)" % nops)
    def h(e):
        transient = bool(e.mkbool("transient"))
        stop_twice = bool(e.mkbool("stop_twice"))
        vo = ["crop", "ellipsis", "visible"][int(e.mk("overflow", 0, 2))]
        h0 = int(e.mk("h0", 0, 3))
        c = mk_console()
        out0, err0 = sys.stdout, sys.stderr
        printed = []
        cur = frame("a", h0)
        tall = restarted = False
        live = Live(cur, console=c, auto_refresh=False, transient=transient, vertical_overflow=vo)
        live.start()
        try:
            for i in range(nops):
                op = first if (i == 0 and first is not None) else int(e.mk("op%d" % i, 0, 7))
                if op == 0:
                    c.print("p%d" % i)
                    printed.append("p%d" % i)
                elif op == 1:
                    c.print("q%d\nr%d" % (i, i))
                    printed += ["q%d" % i, "r%d" % i]
                elif op == 5:
                    # a blank line, through print() without arguments or through line()
                    if i % 2:
                        c.print()
                    else:
                        c.line()
                    printed.append("")
                elif op in (6, 7):
                    # stop, (print a line,) start again: what was on the screen at stop stays, nothing printed since is overwritten
                    live.stop()
                    if not transient and not isinstance(cur, _Nothing):
                        printed += cur.plain.split("\n")
                    if op == 7:
                        c.print("m%d" % i)
                        printed.append("m%d" % i)
                    live.start()
                    restarted = True
                    vo = "visible"      # Rich switches the overflow mode to 'visible' at stop() and keeps it
                elif op in (2, 3):
                    hh = [0, 1, 2, 4, 8, -1][int(e.mk("h%d" % (i + 1), 0, 5))]
                    cur = frame("f%d_" % i, hh) if hh >= 0 else _Nothing()
                    tall = tall or hh > H - 1
                    live.update(cur, refresh=(op == 2))
                else:
                    live.refresh()
        finally:
            live.stop()
            if stop_twice:
                live.stop()
        ok = sys.stdout is out0 and sys.stderr is err0 and not c._render_hooks
        sys.stdout, sys.stderr = out0, err0
        if not ok:
            return False
        scr = Screen(H)
        scr.feed(c.file.getvalue())
        if not scr.cursor_visible:
            return False
        if tall and vo == "visible":
            return True
        if tall:
            # a frame taller than the screen is printed in full at stop() (Rich forces 'visible' there) and scrolls:
            # only require the printed lines to be intact and in order
            return scr.lines()[:len(printed)] == printed
        if scr.hit_top:
            return False
        want = list(printed)
        if not transient:
            want += [l for l in cur.plain.split("\n")] if cur.plain else []
        while want and not want[-1]:
            want.pop()
        if restarted:
            # a stopped frame without lines leaves one blank row behind (stop() always ends the line): blank rows are not compared
            return [l for l in scr.lines() if l] == [w for w in want if w]
        return scr.lines() == want
    return h


_mk_live(2, ("quick", "thorough"), 900)
for _f in range(8):
    _mk_live(3, ("thorough",), 3400, first=_f)


class Boom(Exception):
    pass


class Exploding:
    """A renderable that raises at its n-th render."""

    def __init__(self, at):
        self.at, self.count = at, 0

    def __rich_console__(self, console, options):
        self.count += 1
        if self.count > self.at:
            raise Boom()
        yield Text("ok%d" % self.count)


@symx("C10-crash-points", timeout=900, kind="P", functions=F_L + ["rich/progress.py:Progress.start", "rich/progress.py:Progress.stop",
                                                                 "rich/status.py:Status"],
      bounds="Live / Progress / Status blocks x exception raised by the renderable at its i-th render (i in 0..3) or by the body at "
             "statement 0..2 of a 3-statement block x transient x a partial line pending in the redirected stdout or not (solver-enumerated, native): the exception propagates, sys.stdout / "
             "sys.stderr are the original objects again, the render-hook stack is empty and the cursor is shown again")
def c10_crash(e):
    kind = int(e.mk("kind", 0, 2))
    where = int(e.mk("where", 0, 1))      # 0: renderable raises, 1: body raises
    at = int(e.mk("at", 0, 3))
    transient = bool(e.mkbool("transient"))
    pending = bool(e.mkbool("pending_partial_line"))     # text without a newline waiting in the redirected stdout at the fault
    c = mk_console()
    out0, err0 = sys.stdout, sys.stderr
    raised = False
    try:
        if kind == 0:
            rend = Exploding(at) if where == 0 else Text("fine")
            with Live(rend, console=c, auto_refresh=False, transient=transient) as live:
                if pending:
                    sys.stdout.write("zz")
                for stmt in range(3):
                    if where == 1 and stmt == at:
                        raise Boom()
                    live.refresh()
                    c.print("line")
        elif kind == 1:
            with Progress(console=c, auto_refresh=False, transient=transient) as prog:
                task = prog.add_task("t", total=3)
                if pending:
                    sys.stdout.write("zz")
                for stmt in range(3):
                    if where == 1 and stmt == at:
                        raise Boom()
                    if where == 0 and stmt == at:
                        prog.columns = (Exploding(0),)      # a column that is not callable: rendering fails
                    prog.advance(task)
                    prog.refresh()
        else:
            st = Status("s", console=c)
            st._live.auto_refresh = False      # no refresh thread (threads: see C11)
            with st:
                for stmt in range(3):
                    if stmt == at:
                        raise Boom()
                    c.print("x")
    except Boom:
        raised = True
    except TypeError:
        raised = True
    finally:
        restored = sys.stdout is out0 and sys.stderr is err0
        sys.stdout, sys.stderr = out0, err0
    scr = Screen(H)
    scr.feed(c.file.getvalue())
    must_raise = not (kind == 0 and where == 1 and at == 3) and not (kind != 0 and at == 3)
    if kind == 0 and where == 0:
        must_raise = True
    return restored and not c._render_hooks and scr.cursor_visible and (raised or not must_raise)


# --- Progress: frames that grow and shrink (tasks added, hidden, removed) ---------------------------------------------------
from rich.progress import TextColumn  # noqa: E402


def _mk_progress(nops, tiers, timeout):
    @symx("C10-progress-history-%dops" % nops, tiers=tiers, timeout=timeout, kind="P",
          functions=F_L + ["rich/progress.py:Progress.start", "rich/progress.py:Progress.stop", "rich/progress.py:Progress.refresh",
                           "rich/progress.py:Progress.process_renderables", "rich/progress.py:Progress.add_task",
                           "rich/progress.py:Progress.remove_task", "rich/progress.py:Progress.update"],
          bounds="Progress (one text column, no refresh thread) on a 30x8 terminal x transient x every history of %d operations from "
                 "{print, blank print(), add_task, hide the newest visible task, show it again, remove the oldest task, advance, refresh, "
                 "stop + print + start again} then stop (once or twice) "
                 "(solver-enumerated, native, replayed on the screen model): printed lines intact and in order, followed by one line "
                 "per visible task (nothing if transient); no cursor-up leaves the screen; cursor visible again" % nops,
          outside="refresh threads; more than %d operations; more tasks than fit the screen" % nops)
    def h(e):
        transient = bool(e.mkbool("transient"))
        stop_twice = bool(e.mkbool("stop_twice"))
        c = Console(file=io.StringIO(), force_terminal=True, width=30, height=8, color_system=None, legacy_windows=False,
                    _environ={})
        out0, err0 = sys.stdout, sys.stderr
        printed = []
        p = Progress(TextColumn("{task.description}"), console=c, auto_refresh=False, transient=transient)
        tasks = []          # (task id, description, visible)
        restarted = False
        p.start()
        try:
            tasks.append([p.add_task("t0"), "t0", True])
            for i in range(nops):
                op = int(e.mk("op%d" % i, 0, 8))
                if op == 0:
                    c.print("p%d" % i)
                    printed.append("p%d" % i)
                elif op == 7:
                    c.print()
                    printed.append("")
                elif op == 8:
                    # stop, print a line, start again: the rows shown at stop stay, the line printed since is not overwritten
                    p.stop()
                    if not transient:
                        printed += [t[1] for t in tasks if t[2]]
                    c.print("m%d" % i)
                    printed.append("m%d" % i)
                    p.start()
                    restarted = True
                elif op == 1:
                    tasks.append([p.add_task("t%d" % (i + 1)), "t%d" % (i + 1), True])
                elif op == 2:
                    vis = [t for t in tasks if t[2]]
                    if vis:
                        vis[-1][2] = False
                        p.update(vis[-1][0], visible=False)
                elif op == 3:
                    hid = [t for t in tasks if not t[2]]
                    if hid:
                        hid[0][2] = True
                        p.update(hid[0][0], visible=True)
                elif op == 4:
                    if tasks:
                        p.remove_task(tasks[0][0])
                        tasks.pop(0)
                elif op == 5:
                    if tasks:
                        p.advance(tasks[-1][0])
                else:
                    p.refresh()
        finally:
            p.stop()
            if stop_twice:
                p.stop()
        ok = sys.stdout is out0 and sys.stderr is err0 and not c._render_hooks
        sys.stdout, sys.stderr = out0, err0
        scr = Screen(8)
        scr.feed(c.file.getvalue())
        if not ok or not scr.cursor_visible or scr.hit_top:
            return False
        want = list(printed) + ([] if transient else [t[1] for t in tasks if t[2]])
        while want and not want[-1]:
            want.pop()      # the screen model reports no trailing blank rows
        if restarted:
            # a stopped frame without rows leaves one blank row behind: blank rows are not compared in histories with a restart
            return [l for l in scr.lines() if l] == [w for w in want if w]
        return scr.lines() == want
    return h


_mk_progress(3, ("quick", "thorough"), 900)
_mk_progress(4, ("thorough",), 3400)


# --- an exception at every render index of a fixed history: printed lines must survive ----------------------------------
class _ExplodeAt:
    def __init__(self, at, height):
        self.at, self.count, self.height = at, 0, height

    def __rich_console__(self, console, options):
        self.count += 1
        if self.count == self.at:
            raise Boom()
        for i in range(self.height):
            yield Text("fr%d" % i)


@symx("C10-exception-at-render-index", timeout=900, kind="P", functions=F_L + ["rich/console.py:Console.log"],
      bounds="Live (frame of 1..4 lines, no refresh thread, 20x10 terminal) running [refresh, print, log, print, refresh, log] with the "
             "frame's renderable raising at its i-th render for every i in 1..9 x transient: the exception propagates, cursor / "
             "redirection / hooks are restored, and every line printed before the exception is still on the screen, in order, "
             "without any cursor-up leaving the screen")
def c10_exc_index(e):
    at = int(e.mk("at", 1, 9))
    height = int(e.mk("frame_height", 1, 4))
    transient = bool(e.mkbool("transient"))
    c = Console(file=io.StringIO(), force_terminal=True, width=20, height=10, color_system=None, legacy_windows=False,
                log_time=False, log_path=False, _environ={})
    out0, err0 = sys.stdout, sys.stderr
    printed = []
    raised = False
    try:
        with Live(_ExplodeAt(at, height), console=c, auto_refresh=False, transient=transient) as live:
            live.refresh()
            c.print("p1")
            printed.append("p1")
            c.log("l2")
            printed.append("l2")
            c.print("p3")
            printed.append("p3")
            live.refresh()
            c.log("l4")
            printed.append("l4")
    except Boom:
        raised = True
    finally:
        restored = sys.stdout is out0 and sys.stderr is err0
        sys.stdout, sys.stderr = out0, err0
    scr = Screen(10)
    scr.feed(c.file.getvalue())
    if not restored or c._render_hooks or not scr.cursor_visible or scr.hit_top:
        return False
    got = scr.lines()
    # the lines that were completely printed (their operation returned) must still be there, in order, at the top
    return got[:len(printed)] == printed


# --- erase sequences against the frame height, every height (P over the height, screen model) ------------------------------
from rich.live_render import LiveRender  # noqa: E402


@symx("C10-erase-sequence-heights", timeout=600, kind="P",
      functions=["rich/live_render.py:LiveRender.position_cursor", "rich/live_render.py:LiveRender.restore_cursor",
                 "rich/live_render.py:LiveRender.__rich_console__"],
      bounds="LiveRender with a frame of h lines for every h in 1..120 (screen 130 rows), after p in 0..3 printed lines: replaying "
             "[printed lines, frame, position_cursor] leaves the printed lines intact, every frame row blank and the cursor on the "
             "frame's first row; [printed lines, frame, newline, restore_cursor] likewise with the cursor back on the frame's first "
             "row; no cursor-up leaves the screen")
def c10_erase(e):
    h = int(e.mk("height", 1, 120))
    p = int(e.mk("printed", 0, 3))
    mode = int(e.mk("mode", 0, 1))
    c = Console(file=io.StringIO(), force_terminal=True, width=20, height=130, color_system=None, legacy_windows=False,
                _environ={})
    lr = LiveRender(frame("f", h))
    for i in range(p):
        c.print("p%d" % i)
    c.print(lr, end="")
    if mode == 0:
        c.print(lr.position_cursor(), end="")
    else:
        c.print("")
        c.print(lr.restore_cursor(), end="")
    scr = Screen(130)
    scr.feed(c.file.getvalue())
    if scr.hit_top or scr.lines() != ["p%d" % i for i in range(p)]:
        return False
    return scr.row == p and scr.col == 0


# --- writes through the redirected sys.stdout / sys.stderr, including a partial line still pending at stop() --------------
def _mk_redirect(nops, tiers, timeout):
    @symx("C10-redirected-writes-%dops" % nops, tiers=tiers, timeout=timeout, kind="P",
          functions=F_L + ["rich/file_proxy.py:FileProxy.write", "rich/file_proxy.py:FileProxy.flush",
                           "rich/live.py:Live._disable_redirect_io", "rich/progress.py:Progress.stop",
                           "rich/progress.py:Progress._disable_redirect_io"],
          bounds="Live / Progress (no refresh thread, 20x8 terminal) x transient x every history of %d operations from {console print, "
                 "sys.stdout.write of a full line, sys.stdout.write without newline, sys.stderr.write without newline, new frame "
                 "(height 0..2, refreshed) / add_task, refresh} then stop (solver-enumerated, native, replayed on the screen model): "
                 "every completed line is on the screen in order, text still pending in a redirected stream at stop() appears as a "
                 "printed line (the two streams in either order) above the final frame; no frame remnant; cursor visible; streams "
                 "and hooks restored" % nops,
          outside="CPython reference counting flushes the dropped proxy at once; other interpreters may flush later")
    def h(e):
        transient = bool(e.mkbool("transient"))
        use_progress = bool(e.mkbool("progress"))
        c = Console(file=io.StringIO(), force_terminal=True, width=20, height=8, color_system=None, legacy_windows=False,
                    _environ={})
        out0, err0 = sys.stdout, sys.stderr
        printed, pend_out, pend_err = [], "", ""
        if use_progress:
            disp = Progress(TextColumn("{task.description}"), console=c, auto_refresh=False, transient=transient)
            frame_lines = []
        else:
            disp = Live(frame("a", 1), console=c, auto_refresh=False, transient=transient)
            frame_lines = ["a0"]
        disp.start()
        try:
            for i in range(nops):
                op = int(e.mk("op%d" % i, 0, 5))
                if op == 0:
                    c.print("p%d" % i)
                    printed.append("p%d" % i)
                elif op == 1:
                    sys.stdout.write("w%d\n" % i)
                    printed.append(pend_out + "w%d" % i)
                    pend_out = ""
                elif op == 2:
                    sys.stdout.write("y%d" % i)
                    pend_out += "y%d" % i
                elif op == 3:
                    sys.stderr.write("z%d" % i)
                    pend_err += "z%d" % i
                elif op == 4:
                    if use_progress:
                        disp.add_task("t%d" % i)
                        disp.refresh()
                        frame_lines = frame_lines + ["t%d" % i]
                    else:
                        hh = int(e.mk("h%d" % i, 0, 2))
                        fr = frame("f%d_" % i, hh)
                        disp.update(fr, refresh=True)
                        frame_lines = fr.plain.split("\n") if fr.plain else []
                else:
                    disp.refresh()
        finally:
            disp.stop()
        ok = sys.stdout is out0 and sys.stderr is err0 and not c._render_hooks
        sys.stdout, sys.stderr = out0, err0
        scr = Screen(8)
        scr.feed(c.file.getvalue())
        if not ok or not scr.cursor_visible or scr.hit_top:
            return False
        tail = [] if transient else list(frame_lines)
        pend = [x for x in (pend_out, pend_err) if x]
        got = scr.lines()
        return any(got == printed + order + tail for order in ([pend, pend[::-1]] if len(pend) == 2 else [pend]))
    return h


_mk_redirect(2, ("quick", "thorough"), 600)
_mk_redirect(4, ("thorough",), 3000)
