"""C19 - the ANSI decoder inverts the encoder; redirected output is never lost (DESIGN.md 5, C19)."""
import io

from rich.ansi import AnsiDecoder
from rich.color import Color, ColorType
from rich.console import Console
from rich.file_proxy import FileProxy
from rich.segment import Segment
from rich.style import Style

from vf.obl import symx, xh
from vf import termmodel
from vf.props.c03 import ATTRS

F_D = ["rich/ansi.py:AnsiDecoder.decode", "rich/ansi.py:AnsiDecoder.decode_line", "rich/ansi.py:_ansi_tokenize", "rich/ansi.py:SGR_STYLE_MAP",
       "rich/style.py:Style.render", "rich/console.py:Console._render_buffer"]
COLORS = [None, Color.default(), Color.parse("red"), Color.parse("bright_blue"), Color.parse("bright_black"), Color.parse("color(100)"),
          Color.from_rgb(1, 2, 3), Color.from_rgb(128, 128, 128)]


def _col_key(c):
    if c is None:
        return None
    return (int(c.type), c.number, tuple(c.triplet) if c.triplet else None)


def _style_key(st):
    return (frozenset(a for a in ATTRS if getattr(st, a)), _col_key(st.color), _col_key(st.bgcolor), st.link)


def _mk_style(e, p, small=False):
    kw = {}
    i = int(e.mk(p + "attr", 0, 13 if not small else 2))
    if i < (13 if not small else 2):
        kw[ATTRS[i]] = True
    cols = COLORS if not small else [None, COLORS[2], COLORS[6]]
    fg = cols[int(e.mk(p + "fg", 0, len(cols) - 1))]
    bg = cols[int(e.mk(p + "bg", 0, len(cols) - 1))]
    link = [None, "http://x/y", "https://e.org/app;jsessionid=1A2B?x=1&y=2"][int(e.mk(p + "link", 0, 2))]
    return Style(color=fg, bgcolor=bg, link=link, **kw)


def _roundtrip_ok(segs) -> bool:
    c = Console(file=io.StringIO(), color_system="truecolor", force_terminal=True, width=80, legacy_windows=False, _environ={})
    with c:
        c._buffer.extend(segs)
    lines = list(AnsiDecoder().decode(c.file.getvalue()))
    want_text = "".join(s.text for s in segs)
    if "".join(l.plain for l in lines) != want_text.replace("\n", ""):
        return False
    pos = 0
    flat = []
    for seg in segs:
        for ch in seg.text:
            if ch != "\n":
                flat.append(seg.style or Style())
    for line in lines:
        for i in range(len(line.plain)):
            got = line.get_style_at_offset(c, i)
            if _style_key(got) != _style_key(flat[pos]):
                return False
            pos += 1
    return pos == len(flat)


@symx("C19-roundtrip-one-style", timeout=1500, kind="P", functions=F_D,
      bounds="text 'a' + 'b' + 'c' where 'a' and 'c' carry a style with at most one attribute on x fg and bg from 7 representatives "
             "(unset, default, standard, bright, 8-bit, truecolor, grey) x link (none, plain, with ';' '?' '&' '='), 'b' unstyled; printed by a truecolor terminal console "
             "and decoded: same characters, per character the same on-attributes, colours (type, number, triplet) and link")
def c19_rt1(e):
    st = _mk_style(e, "s")
    return _roundtrip_ok([Segment("a", st), Segment("b"), Segment("c", st)])


@symx("C19-roundtrip-two-styles", timeout=3000, kind="P", functions=F_D, tiers=("thorough",),
      bounds="two adjacent differently styled segments (first: <=1 attribute, fg, bg from 8 representatives, link; second: none/bold/dim, "
             "fg and bg from 3 representatives, link) followed by a newline "
             "and a third segment: decoder state must not leak between them")
def c19_rt2(e):
    s1, s2 = _mk_style(e, "s"), _mk_style(e, "t", small=True)
    return _roundtrip_ok([Segment("a", s1), Segment("b", s2), Segment("\n"), Segment("c", s1)])


@symx("C19-roundtrip-attribute-pairs", timeout=1500, kind="P", functions=F_D,
      bounds="every pair of the 13 attributes on together (and every single attribute) with a truecolor foreground")
def c19_pairs(e):
    i, j = int(e.mk("i", 0, 12)), int(e.mk("j", 0, 12))
    st = Style(color=Color.from_rgb(9, 8, 7), **{ATTRS[i]: True, ATTRS[j]: True})
    return _roundtrip_ok([Segment("xy", st), Segment("z")])


# --- decoder colour arithmetic for every index / triplet (S, xh) ---------------------------------------------------
def _pre_n(n: int, bg: bool) -> bool:
    return 0 <= n <= 255


@xh("C19-decode-indexed", pre=_pre_n, timeout=600, kind="S", functions=F_D, stubs=["S2"],
    bounds="decode_line('ESC[38;5;<n>mx') / 48;5 for every n in 0..255 (decimal text symbolic): colour number n, standard below 16")
def c19_idx(n: int, bg: bool) -> bool:
    line = AnsiDecoder().decode_line("\x1b[" + ("48" if bg else "38") + ";5;" + str(n) + "mx")
    if line.plain != "x" or len(line.spans) != 1:
        return False
    st = line.spans[0].style
    col = st.bgcolor if bg else st.color
    other = st.color if bg else st.bgcolor
    return (col is not None and other is None and col.number == n
            and col.type == (ColorType.STANDARD if n < 16 else ColorType.EIGHT_BIT))


def _mk_rgb(which, tiers, timeout):
    def pre(v: int) -> bool:
        return 0 <= v <= 255

    @xh("C19-decode-truecolor-%s" % "rgb"[which], pre=pre, tiers=tiers, timeout=timeout, kind="S", functions=F_D, stubs=["S2"],
        bounds="decode_line('ESC[38;2;<r>;<g>;<b>mx') with the %s component ranging over all of 0..255 (decimal text symbolic), the "
               "other two fixed at 7 and 255" % "rgb"[which],
        outside="all three components symbolic at once did not finish in 900 s")
    def h(v: int) -> bool:
        comps = [7, 255, 7]
        comps[which] = v
        line = AnsiDecoder().decode_line("\x1b[38;2;" + str(comps[0]) + ";" + str(comps[1]) + ";" + str(comps[2]) + "mx")
        if line.plain != "x" or len(line.spans) != 1:
            return False
        col = line.spans[0].style.color
        return col is not None and col.type == ColorType.TRUECOLOR and tuple(col.triplet) == tuple(comps)
    return h


for _w in range(3):
    _mk_rgb(_w, ("quick", "thorough"), 600)


# --- FileProxy: every line exactly once, in order, complete, styling preserved; flush emits the remainder (P) ------
_TOK = ["a", "b", "\n", "\x1b[1m", "\x1b[0m", "\x1b[31m"]


def _proxy_ok(stream, cuts, flush_end) -> bool:
    c = Console(file=io.StringIO(), color_system="truecolor", force_terminal=True, width=80, legacy_windows=False, _environ={})
    proxy = FileProxy(c, io.StringIO())
    prev = 0
    for cut in sorted(cuts) + [len(stream)]:
        proxy.write(stream[prev:cut])
        proxy.write("")
        prev = cut
    pending = stream.rsplit("\n", 1)[-1] if "\n" in stream else stream
    if flush_end:
        if "\x1b" in pending:
            return True     # what flush does with a pending escape sequence is not stated by the property
        proxy.flush()
    complete = stream[: len(stream) - len(pending)]
    want = termmodel.sgr_decode(complete)
    got = termmodel.sgr_decode(c.file.getvalue())
    # the style of a newline is not observable: compare attributes only on the other characters
    key = lambda cells: [(ch, None, None) if ch == "\n" else (ch, "bold" in at, fg) for ch, at, fg, bg, link in cells]  # noqa: E731
    n_complete = len(want.cells)
    if key(got.cells[:n_complete]) != key(want.cells):
        return False
    # the flushed remainder: its characters are emitted once, followed by a newline (its styling is not stated)
    rest = "".join(ch for ch, *_ in got.cells[n_complete:])
    return rest == ((pending + "\n") if (flush_end and pending) else "")


def _mk_proxy(ntok, tiers, timeout):
    @symx("C19-fileproxy-%dtokens" % ntok, tiers=tiers, timeout=timeout, kind="P",
          functions=["rich/file_proxy.py:FileProxy.write", "rich/file_proxy.py:FileProxy.flush", "rich/ansi.py:AnsiDecoder.decode_line",
                     "rich/console.py:Console.print"],
          bounds="streams of %d tokens from %r written through FileProxy in 3 chunks cut at two solver-chosen offsets (also inside "
                 "escape sequences and producing empty writes), optional final flush: the console output decodes to exactly the "
                 "newline-terminated lines of the stream (plus the flushed remainder), once, in order, with bold/colour per character"
                 % (ntok, _TOK),
          outside="flush while an escape sequence is pending; markup-looking text in a flushed remainder; real sys.stdout redirection "
                  "by Live/Progress (thread-related parts: see C11)")
    def h(e):
        toks = [_TOK[int(e.mk("t%d" % i, 0, len(_TOK) - 1))] for i in range(ntok)]
        stream = "".join(toks)
        c1 = int(e.mk("cut1", 0, 12))
        c2 = int(e.mk("cut2", 0, 12))
        if c1 > len(stream) or c2 > len(stream):
            return True
        return _proxy_ok(stream, [c1, c2], bool(e.mkbool("flush")))
    return h


_mk_proxy(3, ("quick", "thorough"), 900)
_mk_proxy(4, ("thorough",), 3400)


# --- every single SGR parameter 0..255, symbolic decimal text (S, xh) ---------------------------------------------------
def _pre_code(code: int) -> bool:
    return 0 <= code <= 255


@xh("C19-decode-sgr-parameter", pre=_pre_code, timeout=900, kind="S", functions=F_D, stubs=["S2"],
    bounds="decode_line('ESC[1;<code>mx') for every code in 0..255 (decimal text symbolic), starting from bold: the decoded style is "
           "what the independent terminal model says that parameter does (attribute on/off, 16 fg / 16 bg colours, defaults, reset, "
           "ignored otherwise)")
def c19_code(code: int) -> bool:
    seq = "\x1b[1;" + str(code) + "mx"
    line = AnsiDecoder().decode_line(seq)
    if line.plain != "x":
        return False
    got = line.spans[0].style if line.spans else Style()
    c = Console(file=io.StringIO(), width=20, _environ={})
    got_key = _style_key(got if isinstance(got, Style) else c.get_style(got))
    from crosshair.core import realize
    from crosshair.tracers import NoTracing
    k = realize(code)
    with NoTracing():
        want = termmodel.sgr_decode("\x1b[1;%dmx" % k).cells[0]
    _, attrs, fg, bg, _link = want

    def conv(col):
        if col is None:
            return None
        if col == ("default",):
            return _col_key(Color.default())
        return _col_key(Color.from_ansi(col[1]))
    return got_key == (frozenset(attrs), conv(fg), conv(bg), None)


# --- two proxies on one console (stdout and stderr while a live display runs): buffers must not be shared -----------------
_TOK2 = ["a", "b", "\n", "c\n"]


@symx("C19-fileproxy-two-streams", timeout=900, kind="P",
      functions=["rich/file_proxy.py:FileProxy.__init__", "rich/file_proxy.py:FileProxy.write", "rich/file_proxy.py:FileProxy.flush"],
      bounds="two FileProxy objects on one console (as Live installs for stdout and stderr) x every sequence of 4 writes, each a "
             "token from %r to a solver-chosen stream, then both flushed: every line of each stream is printed exactly once, "
             "complete, and each stream's lines keep their order (a partial line pending on one stream never leaks into the other)"
             % (_TOK2,))
def c19_two(e):
    c = Console(file=io.StringIO(), color_system=None, force_terminal=True, width=80, legacy_windows=False, _environ={})
    proxies = [FileProxy(c, io.StringIO()), FileProxy(c, io.StringIO())]
    streams = ["", ""]
    for i in range(4):
        which = int(e.mk("stream%d" % i, 0, 1))
        tok = _TOK2[int(e.mk("tok%d" % i, 0, len(_TOK2) - 1))]
        tag = "xy"[which]
        text = tok.replace("a", tag + "a").replace("b", tag + "b").replace("c", tag + "c")
        proxies[which].write(text)
        streams[which] += text
    for p in proxies:
        p.flush()
    got = c.file.getvalue().split("\n")
    for which, tag in enumerate("xy"):
        want = [l for l in streams[which].split("\n")]
        if want and want[-1] == "":
            want.pop()
        mine = [l for l in got if l.startswith(tag) or (l == "" and False)]
        # lines of this stream that contain text, in order; blank lines cannot be attributed to a stream
        if [l for l in want if l] != mine:
            return False
    blanks = sum(1 for s in streams for l in (s.split("\n")[:-1] if s.endswith("\n") else s.split("\n")[:-1]) if l == "")
    return sum(1 for l in got[:-1] if l == "") == blanks


# --- decoder state over sequences of SGR and hyperlink (OSC 8) tokens, across lines (P) -----------------------------------
_DTOK = ["x", "\x1b[1m", "\x1b[31m", "\x1b[0m", "\x1b]8;;http://x/y\x1b\\", "\x1b]8;;\x1b\\", "\n", "\x1b[22m"]


def _decode_ok(stream, through_proxy) -> bool:
    c = Console(file=io.StringIO(), color_system="truecolor", force_terminal=True, width=80, legacy_windows=False, _environ={})
    want = [cell for cell in termmodel.sgr_decode(stream).cells]
    if through_proxy:
        proxy = FileProxy(c, io.StringIO())
        proxy.write(stream)
        complete = stream[: stream.rfind("\n") + 1]
        want = [cell for cell in termmodel.sgr_decode(complete).cells if cell[0] != "\n"]
        got = [cell for cell in termmodel.sgr_decode(c.file.getvalue()).cells if cell[0] != "\n"]
        key = lambda cells: [(ch, "bold" in at, fg, link) for ch, at, fg, bg, link in cells]  # noqa: E731
        return key(got) == key(want)
    lines = list(AnsiDecoder().decode(stream))
    got = []
    for line in lines:
        for i, ch in enumerate(line.plain):
            st = line.get_style_at_offset(c, i)
            fg = None if st.color is None else ("std", st.color.number)
            got.append((ch, bool(st.bold), fg, st.link))
    return got == [(ch, "bold" in at, fg, link) for ch, at, fg, bg, link in want if ch != "\n"]


def _mk_decode_seq(ntok, tiers, timeout):
    @symx("C19-decode-token-sequences-%d" % ntok, tiers=tiers, timeout=timeout, kind="P",
          functions=F_D + ["rich/style.py:Style.update_link", "rich/file_proxy.py:FileProxy.write"],
          bounds="every stream of %d tokens from {x, bold on, red, reset, bold off, hyperlink open, hyperlink close, newline} followed "
                 "by 'x', newline, 'x', newline (so that state carried past a hyperlink close or a line end shows), decoded directly "
                 "by AnsiDecoder.decode and written through a FileProxy to a truecolor console: per character the same bold / "
                 "colour / link as the independent terminal model assigns (solver-enumerated, native)" % ntok,
          outside="other SGR parameters (C19-decode-sgr-parameter covers each singly); OSC 8 with an id parameter; a reset (SGR 0) "
                  "while a hyperlink is open - a terminal keeps the link, Rich's decoder drops it; the property speaks of styling "
                  "and Rich's own encoder never produces that order, so those streams are skipped (recorded in DESIGN.md 0.4)")
    def h(e):
        toks = [_DTOK[int(e.mk("t%d" % i, 0, len(_DTOK) - 1))] for i in range(ntok)]
        stream = "".join(toks) + "x\nx\n"
        open_link = False
        for t in toks:
            if t == _DTOK[4]:
                open_link = True
            elif t == _DTOK[5]:
                open_link = False
            elif t == _DTOK[3] and open_link:
                return True     # SGR 0 inside an open hyperlink: see `outside`
        return _decode_ok(stream, False) and _decode_ok(stream, True)
    return h


_mk_decode_seq(4, ("quick", "thorough"), 900)
_mk_decode_seq(6, ("thorough",), 3400)


# --- the same Text printed repeatedly: Style objects that were rendered before are combined again (P) -------------------
from rich.text import Text  # noqa: E402

_R_ATTR = [None, ("bold", True), ("bold", False), ("italic", True), ("dim", False)]
_R_COL = [None, Color.parse("red"), Color.from_rgb(64, 80, 96)]


def _r_style(e, p):
    kw = {}
    a = _R_ATTR[int(e.mk(p + "_attr", 0, len(_R_ATTR) - 1))]
    if a:
        kw[a[0]] = a[1]
    link = "http://x/" + p if e.mkbool(p + "_link") else None
    return Style(color=_R_COL[int(e.mk(p + "_fg", 0, 2))], bgcolor=_R_COL[int(e.mk(p + "_bg", 0, 2))], link=link, **kw)


@symx("C19-roundtrip-nested-spans-repeated", timeout=1500, kind="P", functions=F_D + ["rich/text.py:Text.render", "rich/style.py:Style.__add__"],
      bounds="Text 'abcd' with style a on [0,4) and style b on [1,3) (each: attribute from {none, bold on/off, italic on, dim off} x fg, "
             "bg from {unset, standard, truecolor} x link), printed three times by the same truecolor console with the same Style "
             "objects: every one of the three outputs decodes to the characters with the combined style per character "
             "(solver-enumerated, native)")
def c19_nested_repeated(e):
    a, b = _r_style(e, "a"), _r_style(e, "b")
    c = Console(file=io.StringIO(), color_system="truecolor", force_terminal=True, width=80, legacy_windows=False, _environ={})
    text = Text("abcd")
    text.stylize(a, 0, 4)
    text.stylize(b, 1, 3)
    want = [_style_key(a), _style_key(a + b), _style_key(a + b), _style_key(a)]
    for _round in range(3):
        c.file.seek(0)
        c.file.truncate()
        c.print(text, end="")
        lines = list(AnsiDecoder().decode(c.file.getvalue()))
        if len(lines) != 1 or lines[0].plain != "abcd":
            return False
        for i in range(4):
            if _style_key(lines[0].get_style_at_offset(c, i)) != want[i]:
                return False
    return True
