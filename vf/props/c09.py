"""C09 - measurements are sound bounds (DESIGN.md 5, C09)."""
from rich.measure import Measurement, measure_renderables

from vf.obl import symx, xh
from vf.symx import sym_and, sym_implies
from vf import kernel
from vf.kernel import SymCell

F_M = ["rich/measure.py:Measurement.get", "rich/measure.py:Measurement.normalize", "rich/measure.py:Measurement.with_maximum",
       "rich/measure.py:Measurement.with_minimum", "rich/measure.py:Measurement.clamp", "rich/measure.py:measure_renderables"]
STUBS = ["S7: renderables are stubs whose __rich_measure__ returns arbitrary solver-chosen integers (even min>max, negatives)", "S3"]


class _NoMeasure:
    def __rich_console__(self, console, options):
        yield ""


class _Cast:
    def __init__(self, inner):
        self.inner = inner

    def __rich__(self):
        return self.inner


def _in_range(m, w):
    return sym_and(0 <= m.minimum, m.minimum <= m.maximum, m.maximum <= w)


@symx("C09-measurement-get", timeout=600, kind="S", functions=F_M, stubs=STUBS,
      bounds="any raw (minimum, maximum) in [-5,80]^2 returned by __rich_measure__ (also via __rich__ cast and without a measure "
             "method) x every available width 0..60: 0 <= minimum <= maximum <= width")
def c09_get(e):
    mn, mx = e.mk("raw_min", -5, 80), e.mk("raw_max", -5, 80)
    w = e.mk("w", 0, 60)
    c = kernel.console()
    m1 = Measurement.get(c, SymCell(mn, mx), w)
    m2 = Measurement.get(c, _Cast(SymCell(mn, mx)), w)
    m3 = Measurement.get(c, _NoMeasure(), w)
    ok = sym_and(_in_range(m1, w), _in_range(m2, w), _in_range(m3, w), m1.minimum == m2.minimum, m1.maximum == m2.maximum)
    # a sane raw measurement that fits is reported unchanged
    sane = sym_and(0 <= mn, mn <= mx, mx <= w, mx >= 1)
    return sym_and(ok, sym_implies(sane, sym_and(m1.minimum == mn, m1.maximum == mx)))


@symx("C09-measurement-ops", timeout=600, kind="S", functions=F_M, stubs=STUBS,
      bounds="normalize / with_maximum / with_minimum / clamp on any (minimum, maximum) in [-5,80]^2 with bounds in [-5,80]")
def c09_ops(e):
    mn, mx = e.mk("mn", -5, 80), e.mk("mx", -5, 80)
    a, b = e.mk("a", -5, 80), e.mk("b", -5, 80)
    n = Measurement(mn, mx).normalize()
    ok = sym_and(0 <= n.minimum, n.minimum <= n.maximum)
    ok = sym_and(ok, sym_implies(sym_and(0 <= mn, mn <= mx), sym_and(n.minimum == mn, n.maximum == mx)))
    wm = n.with_maximum(a)
    ok = sym_and(ok, wm.minimum <= wm.maximum, sym_implies(a >= 0, wm.maximum <= a), wm.maximum <= n.maximum)
    wn = n.with_minimum(a)
    ok = sym_and(ok, wn.minimum <= wn.maximum, wn.minimum >= a, wn.minimum >= n.minimum)
    cl = n.clamp(a, b)
    ok = sym_and(ok, sym_implies(sym_and(0 <= a, a <= b), sym_and(a <= cl.minimum, cl.minimum <= cl.maximum, cl.maximum <= b)))
    return sym_and(ok, n.clamp(None, None) == n)


@symx("C09-measure-renderables", timeout=600, kind="S", functions=F_M, stubs=STUBS,
      bounds="two stub renderables with any raw measurements in [-5,60]^2, width 1..60: result within [0,width], equal to the "
             "widest minimum / widest maximum of the individual measurements; empty list gives (0,0)")
def c09_group(e):
    c = kernel.console()
    w = e.mk("w", 1, 60)
    cells = [SymCell(e.mk("mn%d" % i, -5, 60), e.mk("mx%d" % i, -5, 60)) for i in range(2)]
    m = measure_renderables(c, cells, w)
    each = [Measurement.get(c, x, w) for x in cells]
    ok = sym_and(0 <= m.minimum, m.maximum <= w)
    ok = sym_and(ok, m.minimum == max(each[0].minimum, each[1].minimum), m.maximum == max(each[0].maximum, each[1].maximum))
    ok = sym_and(ok, m.minimum <= m.maximum)
    z = measure_renderables(c, [], w)
    return sym_and(ok, z.minimum == 0, z.maximum == 0)


def _mk_table_measure(n, oname, tiers, timeout):
    from vf.props.c01 import OPTSETS, F_K, K_STUBS
    opts = dict(OPTSETS[oname])
    if opts.get("ratios"):
        opts["ratios"] = opts["ratios"][:n]

    @symx("C09-table-measure-%dcol-%s" % (n, oname), tiers=tiers, timeout=timeout, kind="S", stubs=K_STUBS,
          functions=F_K + ["rich/table.py:Table.__rich_measure__"] + F_M, opts={"query_timeout_ms": 600000},
          bounds="Measurement.get of a real Table (box=None, %d columns, options %r) with stub cells (0<=min<=max<=40), available "
                 "width 0..60: 0 <= minimum <= maximum <= width" % (n, opts))
    def h(e):
        t, cells = kernel.mk_table(e, n, opts)
        w = e.mk("w", 0, 60)
        m = Measurement.get(kernel.console(), t, w)
        return _in_range(m, w)
    return h


for _o in ["plain", "pad-expand"]:
    _mk_table_measure(2, _o, ("quick", "thorough"), 900)
for _o in ["pad-collapse", "ratio-expand", "minwidth"]:
    _mk_table_measure(2, _o, ("thorough",), 1800)
