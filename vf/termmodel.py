"""An independent SGR / OSC-8 terminal model (DESIGN.md 2.4).  Plain Python, no Rich imports.

sgr_decode(s) -> list of cells (char, frozenset(on-attributes), fg, bg, link); colours are
None | ("default",) | ("std", n) | ("256", n) | ("rgb", r, g, b).
Also reports other escape sequences seen (cursor movement etc.) in `controls`.
"""
ATTR_ON = {1: "bold", 2: "dim", 3: "italic", 4: "underline", 5: "blink", 6: "blink2", 7: "reverse", 8: "conceal",
           9: "strike", 21: "underline2", 51: "frame", 52: "encircle", 53: "overline"}
ATTR_OFF = {22: ("bold", "dim"), 23: ("italic",), 24: ("underline", "underline2"), 25: ("blink", "blink2"), 27: ("reverse",),
            28: ("conceal",), 29: ("strike",), 54: ("frame", "encircle"), 55: ("overline",)}


class Decoded:
    def __init__(self):
        self.cells = []
        self.controls = []      # escape sequences that are not SGR / OSC 8, and C0 control characters other than \n
        self.sgr_params = []    # every SGR parameter list seen
        self.escapes = 0        # number of ESC characters in the stream

    @property
    def text(self):
        return "".join(c[0] for c in self.cells)


def sgr_decode(s: str) -> Decoded:
    out = Decoded()
    attrs = set()
    fg = bg = None
    link = None
    i, n = 0, len(s)
    while i < n:
        ch = s[i]
        if ch != "\x1b":
            if ch < " " and ch != "\n":
                out.controls.append(ch)
            else:
                out.cells.append((ch, frozenset(attrs), fg, bg, link))
            i += 1
            continue
        out.escapes += 1
        if i + 1 < n and s[i + 1] == "[":
            j = i + 2
            while j < n and not ("@" <= s[j] <= "~"):
                j += 1
            body, final = s[i + 2:j], (s[j] if j < n else "")
            if final == "m":
                params = [int(p) if p.isdecimal() else 0 for p in body.split(";")] if body else [0]
                out.sgr_params.append(params)
                k = 0
                while k < len(params):
                    p = params[k]
                    if p == 0:
                        attrs.clear()
                        fg = bg = None
                    elif p in ATTR_ON:
                        attrs.add(ATTR_ON[p])
                    elif p in ATTR_OFF:
                        for a in ATTR_OFF[p]:
                            attrs.discard(a)
                    elif 30 <= p <= 37:
                        fg = ("std", p - 30)
                    elif 90 <= p <= 97:
                        fg = ("std", p - 90 + 8)
                    elif p == 39:
                        fg = ("default",)
                    elif 40 <= p <= 47:
                        bg = ("std", p - 40)
                    elif 100 <= p <= 107:
                        bg = ("std", p - 100 + 8)
                    elif p == 49:
                        bg = ("default",)
                    elif p in (38, 48):
                        col = None
                        if k + 2 < len(params) + 0 and params[k + 1] == 5:
                            col = ("256", params[k + 2])
                            k += 2
                        elif k + 4 < len(params) + 0 and params[k + 1] == 2:
                            col = ("rgb", params[k + 2], params[k + 3], params[k + 4])
                            k += 4
                        if p == 38:
                            fg = col
                        else:
                            bg = col
                    k += 1
            else:
                out.controls.append(s[i:j + 1])
            i = j + 1
        elif i + 1 < n and s[i + 1] == "]":
            j = s.find("\x1b\\", i + 2)
            if j < 0:
                out.controls.append(s[i:])
                break
            body = s[i + 2:j]
            if body.startswith("8;"):
                _params, _, uri = body[2:].partition(";")
                link = uri or None
            else:
                out.controls.append(s[i:j + 2])
            i = j + 2
        else:
            out.controls.append(s[i:i + 2])
            i += 2
    return out


def strip_escapes(s: str) -> str:
    """Visible text: everything except escape sequences and C0 controls other than newline."""
    return sgr_decode(s).text


def has_colour_params(params) -> bool:
    k = 0
    while k < len(params):
        p = params[k]
        if 30 <= p <= 39 or 40 <= p <= 49 or 90 <= p <= 97 or 100 <= p <= 107:
            return True
        k += 1
    return False


class Screen:
    """A VT100-subset screen: CR, LF (with implicit CR), CSI n A, CSI 2K, CSI ?25 h/l; SGR and OSC 8 are ignored.
    `height` rows are visible; output below the bottom scrolls; the cursor cannot move above the visible top."""

    def __init__(self, height=24):
        self.rows = [[]]
        self.row = 0
        self.col = 0
        self.height = height
        self.cursor_visible = True
        self.hit_top = False          # a cursor-up tried to go above the visible screen
        self.min_row_after_up = None

    @property
    def top(self):
        return max(0, len(self.rows) - self.height)

    def feed(self, s):
        i, n = 0, len(s)
        while i < n:
            ch = s[i]
            if ch == "\x1b":
                if s.startswith("\x1b[", i):
                    j = i + 2
                    while j < n and not ("@" <= s[j] <= "~"):
                        j += 1
                    body, final = s[i + 2:j], (s[j] if j < n else "")
                    if final == "A":
                        k = int(body) if body.isdecimal() else 1
                        if self.row - k < self.top:
                            self.hit_top = True
                        self.row = max(self.top, self.row - k)
                    elif final == "K" and body == "2":
                        self.rows[self.row] = []
                    elif final in ("h", "l") and body == "?25":
                        self.cursor_visible = final == "h"
                    i = j + 1
                    continue
                if s.startswith("\x1b]", i):
                    j = s.find("\x1b\\", i)
                    i = (j + 2) if j >= 0 else n
                    continue
                i += 2
                continue
            if ch == "\r":
                self.col = 0
            elif ch == "\n":
                self.row += 1
                self.col = 0
                while self.row >= len(self.rows):
                    self.rows.append([])
            elif ch >= " ":
                line = self.rows[self.row]
                while len(line) < self.col:
                    line.append(" ")
                if self.col < len(line):
                    line[self.col] = ch
                else:
                    line.append(ch)
                self.col += 1
            i += 1

    def lines(self):
        out = ["".join(r).rstrip() for r in self.rows]
        while out and not out[-1]:
            out.pop()
        return out
