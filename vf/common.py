"""Shared helpers for harnesses: alphabets and the reference cell-width oracle."""
from rich._cell_widths import CELL_WIDTHS

WIDE = "\u4e2d"      # 中, 2 cells
ZERO = "\u0301"      # combining acute accent, 0 cells
SIGMA = "ab " + WIDE + ZERO
SIGMA_NL = SIGMA + "\n"


def table_width(cp: int) -> int:
    """Linear scan of the width table (independent of rich.cells' binary search)."""
    for start, end, width in CELL_WIDTHS:
        if start <= cp <= end:
            return 0 if width == -1 else width
    return 1


# per-character reference widths for the alphabets used by the harnesses
WMAP = {c: table_width(ord(c)) for c in SIGMA + "\n\t[]\\/=#<>&|-x01c:\x1b"}
assert WMAP[WIDE] == 2 and WMAP[ZERO] == 0 and WMAP["a"] == 1


def ref_width(s) -> int:
    """Reference width of a (possibly symbolic) string over the harness alphabets."""
    total = 0
    for c in s:
        if c == WIDE:
            total += 2
        elif c == ZERO:
            pass
        else:
            total += 1
    return total


def ref_width_concrete(s: str) -> int:
    return sum(table_width(ord(c)) for c in s)


def over(s, alphabet: str) -> bool:
    """Every character of s is in alphabet (traceable by CrossHair)."""
    for c in s:
        if c not in alphabet:
            return False
    return True
