#!/usr/bin/env python3
"""Regenerate MANIFEST.json from the table below (run by hand after editing)."""
import json, os
ROOT = os.path.dirname(os.path.abspath(__file__))
CLAIMED = {
 # id: (technique, level text, level_note, design_ref)
}
NA = {}
exec(open(os.path.join(ROOT, "manifest_table.py")).read())
checks = []
for pid in sorted(CLAIMED):
    tech, text, note, ref = CLAIMED[pid]
    checks.append({
        "property_id": pid,
        "quick_cmd": "./check %s --tier quick" % pid,
        "thorough_cmd": "./check %s --tier thorough" % pid,
        "evidence_file": "/verif/evidence/%s.json" % pid,
        "replay_cmd_template": "./check %s --replay {path}" % pid,
        "engine": "vf (xh = CrossHair 0.0.110 on the real functions; symx = own DSE over z3)",
        "level_claimed": {"category": "model_checking", "text": text, "design_ref": ref},
        "level_note": note,
        "technique": tech,
    })
m = {
 "version": 1,
 "setup_cmd": "./setup.sh",
 "hooks": {"guard": "RICH_VERIF", "enable": "no hooks are needed: all stubs are applied from the harness process (DESIGN.md 8)",
           "baseline_off_cmd": "cd /repo && /venv/bin/python -m pytest -ra -q -p no:cacheprovider --timeout=900 --continue-on-collection-errors",
           "source_commits": [], "add_only": True},
 "engines": [
   {"name": "xh", "path": "vf/worker.py", "serves_properties": sorted(CLAIMED),
    "kind_free_text": "CrossHair 0.0.110 (z3) symbolic execution of the unmodified Rich function objects, driven through analyze_calltree with harness-side configuration (vf/chfix.py)"},
   {"name": "symx", "path": "vf/symx.py", "serves_properties": sorted(CLAIMED),
    "kind_free_text": "own dynamic symbolic execution engine: z3 Int/BitVec/Float64 proxies passed to the real Rich functions, path-by-path re-execution, If-merged min/max"},
 ],
 "checks": checks,
 "not_applicable": [{"property_id": k, "reason": v} for k, v in sorted(NA.items())],
 "notes": "Bounded symbolic checking of the real code; see DESIGN.md. Exit 0 = no refuted obligation; inconclusive obligations are reported in evidence and never counted as discharged.",
}
json.dump(m, open(os.path.join(ROOT, "MANIFEST.json"), "w"), indent=1)
print("claimed", sorted(CLAIMED), "n/a", sorted(NA))
